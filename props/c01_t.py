"""C01, World T: the blocking structure class (GeckoStructure.retry_request) against the simulator's real engine thread."""

from __future__ import annotations

import os
import random
from typing import Any, Dict, List, Optional

from sim.core import HarnessError, RunResult, mix
from sim.net import CLIENT_IP, SPA_IP, SPA_PORT, inner_of
from sim.peers import load_snapshot, make_simulator, repo_root, snapshot_files
from sim.worldt import WorldT

PROP = "C01"
SEG = 39


def gen_case(seed: int, tier: str, index: int, profiles, net_cfg, draw_range) -> Dict[str, Any]:
    rng = random.Random(mix(seed, "c01t.case"))
    profile = profiles[index % len(profiles)]
    if profile == "stall":
        profile = "mixed"
    T = rng.choice([0.5, 1, 2])
    R = rng.choice([0, 1, 3, 10])
    snaps = snapshot_files()
    cfg: Dict[str, Any] = {"profile": profile, "net": net_cfg(profile, rng), "sched": {"cost_p": 0.2, "cost_max": 0.002},
                           "tables": {"idle": {"PROTOCOL_TIMEOUT_IN_SECONDS": T, "PROTOCOL_RETRY_COUNT": R}},
                           "snapshot": snaps[rng.randrange(len(snaps))].split("/")[-1], "T": T, "R": R, "used_numbers": rng.choice([0, 0, 100, 126, 127, 160, 188]),
                           "reliability": rng.choice([0.9, 0.97]) if profile == "unreliable" else 1.0}
    rng_p = random.Random(mix(seed, "c01t.preempt"))
    if rng_p.random() < 0.4:
        # the caller registers its request from its own thread while the engine thread tidies its handler list: the engine is pre-empted at
        # line level inside udp_socket.py (only the engine: the caller's lines are the harness')
        cfg["sched"].update(preempt_p=rng_p.choice([0.05, 0.2, 0.5]), preempt_files=["udp_socket.py"], preempt_threads=["_thread_func"])
    n = rng.randint(3, 8) if tier == "quick" else rng.randint(5, 16)
    plan = []
    for _ in range(n):
        start, length = draw_range(rng)
        plan.append({"op": "transfer", "start": start, "length": length, "block": rng.choice(["random", "random", "zeros", "ff", "mutsnap"]),
                     "bseed": rng.getrandbits(32)})
    if cfg["sched"].get("preempt_p"):
        for o in plan:
            o["phase"] = round(rng_p.uniform(0.0, 0.06), 4)
    return {"property": PROP, "world": "T", "seed": seed, "cfg": cfg, "plan": plan}


def scenario(world: WorldT) -> None:
    from geckolib.driver import GeckoPacketProtocolHandler, GeckoStatusBlockProtocolHandler, GeckoStructure, GeckoUdpSocket

    from props.c01 import make_block

    cfg = world.cfg
    res = world.result
    res.faultfree = cfg["profile"] == "faultfree"
    with world.host(SPA_IP):
        sim = make_simulator()
        sim.set_snapshot(load_snapshot(os.path.join(repo_root(), "tests", "snapshots", cfg["snapshot"])))
        sim.do_start("")
    snap_block = sim.structure.status_block
    sock = GeckoUdpSocket()
    sock.open()
    sock.add_receive_handler(GeckoPacketProtocolHandler(socket=sock))
    struct = GeckoStructure(lambda *a: None)
    struct.set_status_block(snap_block)
    sendparms = (SPA_IP, SPA_PORT, b"SPA01:02:03:04:05:06", b"IOSverif-T")
    installs: List[Any] = []
    orig = struct.replace_status_block_segment

    def wrapped(offset, segment):
        installs.append((world.now(), offset, len(segment)))
        world.log.add("install", offset, len(segment))
        return orig(offset, segment)
    struct.replace_status_block_segment = wrapped
    world.net.healed = res.faultfree
    sim._reliability = cfg.get("reliability", 1.0)
    R, T = cfg["R"], cfg["T"]
    shapes = []
    for _ in range(int(cfg.get("used_numbers", 0))):          # the socket has been in use: its request counter stands anywhere in 1..191
        sock.get_and_increment_sequence_counter(False)
    for ti, op in enumerate(world.case["plan"]):
        start, length = op["start"], op["length"]
        old = struct.status_block
        spa_block = make_block(op["block"], op["bseed"], old, snap_block)
        sim.structure.set_status_block(spa_block)
        mark = len(world.net.history)
        faults_before = sum(res.faults.values())
        del installs[:]
        try:
            request = GeckoStatusBlockProtocolHandler.request(sock.get_and_increment_sequence_counter(False), start, length, parms=sendparms)
        except Exception as e:
            world.violate(PROP, "transfer-raised", f"[blocking] transfer#{ti} start={start} length={length}: building the request raised "
                          f"{type(e).__name__}: {e}", sig="transfer-raised:" + type(e).__name__)
        if op.get("phase"):
            world.sleep(op["phase"])        # anywhere inside an iteration of the engine
        t0 = world.now()
        struct.retry_request(sock, request, sendparms)
        # the outcome is visible as "the handler left the engine's list"
        finished = world.wait_until(lambda: request not in sock._receive_handlers, (R + 2) * (T + 2.0) + 10, step=0.02)
        ctx = f"[blocking] transfer#{ti} start={start} length={length} retries={R} T={T} profile={cfg['profile']}"
        if not finished:
            world.violate(PROP, "transfer-never-ends", f"{ctx}: request handler still registered {world.now() - t0:.1f}s after the request")
        new = struct.status_block
        hist = world.net.history[mark:]
        statu = [r for r in hist if r.verb == "STATU" and r.src[0] != SPA_IP]
        ok = len(installs) > 0
        res.stats["transfers"] = res.stats.get("transfers", 0) + 1
        if len(new) != 1024:
            world.violate(PROP, "block-length", f"{ctx}: block length became {len(new)}")
        if len(statu) > 1 + R:
            world.violate(PROP, "too-many-requests", f"{ctx}: {len(statu)} STATU requests sent, configured 1 + {R}")
        if ok:
            res.stats["ok"] = res.stats.get("ok", 0) + 1
            if len(installs) != 1:
                world.violate(PROP, "install-count", f"{ctx}: {len(installs)} installs in one transfer")
            bad = [i for i in range(start, start + length) if new[i] != spa_block[i]]
            if bad:
                world.violate(PROP, "wrong-bytes", f"{ctx}: requested byte {bad[0]} is {new[bad[0]]:#x}, spa has {spa_block[bad[0]]:#x} ({len(bad)} bad)")
            other = [i for i in range(1024) if not (start <= i < start + length) and new[i] != old[i] and new[i] != spa_block[i]]
            if other:
                world.violate(PROP, "foreign-bytes", f"{ctx}: byte {other[0]} outside the request changed to a value that is not the spa's")
            if len(statu) >= 3:
                res.probe("succeeded_on_attempt_ge3")
        else:
            res.stats["failed"] = res.stats.get("failed", 0) + 1
            if new != old:
                world.violate(PROP, "failure-touched-block", f"{ctx}: the transfer failed but the block changed")
            res.probe("all_attempts_failed")
            if res.faultfree:
                world.violate(PROP, "faultfree-fail", f"{ctx}: transfer failed on a fault-free network ({len(statu)} requests)",
                              sig="faultfree-fail:len%39==0" if length % SEG == 0 else "faultfree-fail:other")
        for r in hist:
            if r.verb == "STATV" and r.fate != "ok":
                res.probe("lost_final_segment" if inner_of(r.data)[6] == 0 else "lost_segment")
            if r.verb == "STATV" and len(r.deliveries) > 1:
                res.probe("dup_segment")
        if length % SEG == 0:
            res.probe("length_multiple_of_39")
        if sum(res.faults.values()) > faults_before:
            res.nontrivial = True
        shapes.append((len(statu), ok))
        # quiescence between distinct transfers
        world.wait_until(lambda: world.net.in_flight() == 0 and not sim._socket._send_handlers and not sock._socket.inbox, 120, step=0.05)
        world.sleep(0.3)
    sock.close()
    sim._socket.close()
    if res.faultfree:
        res.nontrivial = True
    res.shape = format(mix(0, repr(shapes)), "x")
    res.sample = {"world": "T", "profile": cfg["profile"], "plan": [(o["start"], o["length"]) for o in world.case["plan"][:6]], "faults": dict(res.faults)}


def run_case(case, replay=None, keep_log=False) -> RunResult:
    return WorldT(case, replay, keep_log=keep_log).run(scenario)
