"""C01 — status-block transfer installs the spa's bytes or nothing, under any faults."""

from __future__ import annotations

import asyncio
import random
from typing import Any, Dict, List, Optional

from sim.core import HarnessError, RunResult, mix
from sim.net import SPA_IP, SPA_PORT, inner_of
from sim.peers import SpaPeer, snapshot_files
from sim.worlda import WorldA

PROP = "C01"
LEVEL = "exploration"
SEG = 39

PROFILES = ["faultfree", "loss", "heavyloss", "dup", "reorder", "unreliable", "mixed", "stall"]


def _net_cfg(profile: str, rng: random.Random) -> Dict[str, Any]:
    base = {"lat_min": 0.001, "lat_max": 0.004, "loss": 0.0, "dup": 0.0}
    if profile == "faultfree":
        return base
    if profile == "loss":
        base.update(loss=rng.choice([0.02, 0.05, 0.1]))
    elif profile == "heavyloss":
        base.update(loss=rng.choice([0.2, 0.3, 0.5]))
    elif profile == "dup":
        base.update(dup=rng.choice([0.1, 0.3, 0.6]), dup_max=rng.choice([0.01, 0.2, 1.0]))
    elif profile == "reorder":
        base.update(lat_max=rng.choice([0.06, 0.12, 0.3]), slow_p=0.1, slow_max=rng.choice([0.2, 1.0, 3.0]))
    elif profile == "unreliable":
        base.update(loss=rng.choice([0.0, 0.02]))
    elif profile == "mixed":
        base.update(loss=rng.choice([0.03, 0.1, 0.2]), dup=rng.choice([0.05, 0.2]), dup_max=0.5,
                    lat_max=rng.choice([0.01, 0.08, 0.2]), slow_p=0.05, slow_max=2.0, send_error_p=rng.choice([0.0, 0.05]))
    elif profile == "stall":
        base.update(loss=rng.choice([0.0, 0.05]))
    return base


def _draw_range(rng: random.Random) -> (int, int):
    k = rng.random()
    if k < 0.25:
        # multiples of the segment size +-1
        n = rng.randint(1, 26)
        length = max(1, min(1024, n * SEG + rng.choice([-1, 0, 0, 1])))
        start = rng.choice([0, 0, rng.randint(0, 1024 - length)]) if length < 1024 else 0
    elif k < 0.4:
        length = rng.choice([1, 2, 3, 38, 39, 40, 77, 78, 79])
        start = rng.choice([0, 1023 - length + 1, rng.randint(0, 1024 - length)])
    elif k < 0.5:
        start, length = 0, 1024
    elif k < 0.6:
        # ends exactly at the end of the block
        length = rng.randint(1, 300)
        start = 1024 - length
    else:
        start = rng.randint(0, 1023)
        length = rng.randint(1, 1024 - start)
    assert length >= 1 and start >= 0 and start + length <= 1024
    return start, length


def gen_case(seed: int, tier: str, index: int) -> Dict[str, Any]:
    if index % 3 == 2:
        from props import c01_t

        return c01_t.gen_case(seed, tier, index // 3, PROFILES, _net_cfg, _draw_range)
    rng = random.Random(mix(seed, "c01.case"))
    profile = PROFILES[index % len(PROFILES)] if index < 4 * len(PROFILES) else rng.choice(PROFILES)
    snaps = snapshot_files()
    cfg: Dict[str, Any] = {
        "profile": profile,
        "net": _net_cfg(profile, rng),
        "loop": {"cost_small_p": 0.2 if profile != "faultfree" else 0.05, "cost_small_max": 0.002},
        "tables": {"idle": {"PROTOCOL_TIMEOUT_IN_SECONDS": rng.choice([1, 2, 4]),
                            "PING_FREQUENCY_IN_SECONDS": rng.choice([5, 20, 60])}},
        "snapshot": snaps[rng.randrange(len(snaps))].split("/")[-1],
        "used_numbers": rng.choice([0, 0, 60, 120, 126, 127, 150, 186, 189]),
        "reliability": rng.choice([0.7, 0.85, 0.95]) if profile in ("unreliable",) else
                       (rng.choice([1.0, 1.0, 0.9]) if profile == "mixed" else 1.0),
    }
    if profile == "stall":
        cfg["loop"].update(cost_stall_p=0.002, cost_stall_min=0.05, cost_stall_max=rng.choice([0.3, 1.5, 5.0]))
    n = rng.randint(4, 10) if tier == "quick" else rng.randint(5, 20)
    plan = []
    for _ in range(n):
        start, length = _draw_range(rng)
        plan.append({"op": "transfer", "start": start, "length": length,
                     "block": rng.choice(["random", "random", "zeros", "ff", "mutsnap", "markup"]),
                     "bseed": rng.getrandbits(32), "retries": rng.choice([10, 10, 5, 3, 2, 1])})
    if rng.random() < 0.3:
        # two callers fetch different ranges of the same connection at (almost) the same time: segments carry no request identity, so
        # only the serialisation of whole transfers keeps one caller from assembling the other's chain
        for _ in range(rng.choice([1, 2])):
            a, b = _draw_range(rng), _draw_range(rng)
            at = rng.randrange(len(plan) + 1)
            pair = {"op": "pair", "ranges": [list(a), list(b)], "offset": rng.choice([0.0, 0.0, 0.001, 0.01, 0.05, 0.11, 0.3]),
                    "block": rng.choice(["random", "mutsnap"]), "bseed": rng.getrandbits(32), "retries": rng.choice([10, 3, 2])}
            if rng.random() < 0.5:
                # a third user of the connection (a ping or a watercare query) queues behind the first transfer and its caller gives up
                # while it still waits: an abandoned waiter must leave the exchange in progress alone
                pair["bystander"] = {"kind": rng.choice(["ping", "ping", "watercare"]), "after": rng.choice([0.0, 0.0, 0.001, 0.02]),
                                     "give_up": rng.choice([0.0, 0.01, 0.05, 0.12, 0.3, 0.32, 0.34, 0.5]),
                                     "how": rng.choice(["wait_for", "cancel"]), "before_second": rng.random() < 0.6}
            plan.insert(at, pair)
    return {"property": PROP, "world": "A", "seed": seed, "cfg": cfg, "plan": plan}


def sweep_case(seed: int, start: int, lengths: List[int]) -> Dict[str, Any]:
    """Fault-free sweep: one handshake, then one transfer per length at the given start."""
    cfg = {"profile": "faultfree", "net": _net_cfg("faultfree", random.Random(0)),
           "loop": {}, "tables": {"idle": {"PROTOCOL_TIMEOUT_IN_SECONDS": 1, "PING_FREQUENCY_IN_SECONDS": 60}},
           "snapshot": "default.snapshot", "reliability": 1.0, "sweep": True}
    plan = [{"op": "transfer", "start": start, "length": L, "block": "random", "bseed": mix(seed, start, L) & 0xFFFFFFFF,
             "retries": 2} for L in lengths if start + L <= 1024]
    return {"property": PROP, "world": "A", "seed": seed, "cfg": cfg, "plan": plan}


def make_block(kind: str, bseed: int, old: bytes, snap: bytes) -> bytes:
    rng = random.Random(bseed)
    if kind == "zeros":
        b = bytearray(1024)
    elif kind == "ff":
        b = bytearray(b"\xff" * 1024)
    elif kind == "mutsnap":
        b = bytearray(snap)
        for _ in range(64):
            b[rng.randrange(1024)] = rng.randrange(256)
    elif kind == "markup":
        # binary data that happens to contain the packet framing's own tags, line ends, blanks and NULs at drawn places
        b = bytearray(rng.getrandbits(8) for _ in range(1024))
        frags = [b"</DATAS>", b"</PACKT>", b"<PACKT>", b"</SRCCN><DESCN>", b"</DESCN><DATAS>", b"<DATAS>", b"</DATAS></PACKT>", b"\n", b"\r\n", b" ", b"\x00\x00",
                 b"</SRCCN><DESCN>x</DESCN><DATAS>", b"<HELLO>", b"STATV"]
        for _ in range(rng.randint(4, 30)):
            f = rng.choice(frags)
            at = rng.randrange(0, 1024 - len(f))
            b[at:at + len(f)] = f
    else:
        b = bytearray(rng.getrandbits(8) for _ in range(1024))
    if kind in ("random", "mutsnap"):
        # make attribution unambiguous where we can: differ from the client's current byte
        for i in range(1024):
            if b[i] == old[i]:
                b[i] = (b[i] + 1 + (i % 7)) % 256
                if b[i] == old[i]:
                    b[i] = (b[i] + 1) % 256
    return bytes(b)


async def connect_spa(world: WorldA, peer: SpaPeer, events: Optional[list] = None):
    """Real GeckoAsyncSpa handshake against the peer on a healed network."""
    from geckolib.async_spa import GeckoAsyncSpa
    from geckolib.async_spa_descriptor import GeckoAsyncSpaDescriptor
    from geckolib.async_tasks import AsyncTasks

    taskman = AsyncTasks()

    async def on_event(event, **kwargs):
        if events is not None:
            events.append((world.now(), event, kwargs))

    desc = GeckoAsyncSpaDescriptor(b"SPA01:02:03:04:05:06", "Udp Test Spa", (peer.ip, SPA_PORT))
    spa = GeckoAsyncSpa(b"IOSverif-0001", desc, taskman, on_event)
    await spa.connect()
    if not spa.is_connected:
        raise HarnessError("clean-network handshake failed")
    return spa, taskman


def cancel_task(taskman, name: str) -> int:
    n = 0
    for t in taskman._tasks:
        if t.get_name() == name and not t.done():
            t.cancel()
            n += 1
    return n


async def scenario(world: WorldA) -> None:
    import os

    from geckolib.driver import GeckoStatusBlockProtocolHandler
    from sim.peers import repo_root

    cfg = world.cfg
    res = world.result
    res.faultfree = cfg["profile"] == "faultfree"
    snap_path = os.path.join(repo_root(), "tests", "snapshots", cfg["snapshot"])
    peer = SpaPeer(world.loop, world.net, snap_path)
    world.peers.append(peer)
    world.net.healed = True
    world.loop.stalls_on = False
    spa, taskman = await connect_spa(world, peer)
    cancel_task(taskman, "SPA:Refresh loop")
    snap_block = peer.block
    struct = spa.struct
    protocol = spa._protocol
    if struct.status_block != snap_block:
        world.violate(PROP, "handshake-block-mismatch", "client block differs from spa block after a clean handshake")
    # the connection has been in use for a while: its request counter stands anywhere in its cycle (numbers drawn through the counter's
    # own entry point), so that transfers are numbered from the whole range 1..191, wrap included
    for _ in range(int(cfg.get("used_numbers", 0))):
        protocol.get_and_increment_sequence_counter(False)

    installs: List[Any] = []
    orig_replace = struct.replace_status_block_segment

    def wrapped(offset, segment):
        installs.append((world.log.seq, offset, len(segment)))
        world.log.add("install", offset, len(segment))
        return orig_replace(offset, segment)

    struct.replace_status_block_segment = wrapped

    world.net.healed = res.faultfree
    world.loop.stalls_on = True
    peer.sim._reliability = cfg.get("reliability", 1.0)
    shapes = []
    try:
        for ti, op in enumerate(world.case["plan"]):
            if op["op"] == "pair":
                # the statement excludes datagrams delayed beyond the gap between distinct transfers; two back-to-back transfers have no
                # gap, so during a pair the network only loses datagrams (no duplicates, no long delays: nothing of the first transfer
                # can still be under way when the second one is served)
                # (event-loop stalls are off too: a stall longer than the timeout makes the first caller re-request while its chain is
                # still arriving, and the redundant chain is then under way when the second caller is served)
                saved = {k: world.net.cfg.get(k) for k in ("dup", "slow_p", "lat_max")}
                world.net.cfg.update(dup=0.0, slow_p=0.0, lat_max=min(world.net.cfg.get("lat_max", 0.004), 0.004))
                world.loop.stalls_on = False
                try:
                    await run_pair(world, ti, op, spa, struct, protocol, peer, snap_block, installs)
                    await drained(world, protocol)
                finally:
                    world.loop.stalls_on = True
                    for k, v in saved.items():
                        if v is None:
                            world.net.cfg.pop(k, None)
                        else:
                            world.net.cfg[k] = v
                continue
            start, length, retries = op["start"], op["length"], op["retries"]
            old = struct.status_block
            spa_block = make_block(op["block"], op["bseed"], old, snap_block)
            peer.set_block(spa_block)
            mark = len(world.net.history)
            faults_before = sum(res.faults.values())
            del installs[:]
            world.log.add("transfer-begin", ti, start, length, retries)
            t0 = world.now()
            get_task = asyncio.ensure_future(struct.get(
                protocol,
                lambda: GeckoStatusBlockProtocolHandler.request(
                    protocol.get_and_increment_sequence_counter(False), start, length, parms=spa.sendparms
                ),
                retry_count=retries,
            ))
            get_task.set_name("HARNESS:get")
            # the statement bounds the number of requests: watch it while the call runs, so that a call that never gives up is a
            # verdict (too many requests) and not a run that hits the simulator's caps
            while not get_task.done():
                await asyncio.wait([get_task], timeout=1.0)
                n_req = sum(1 for r in world.net.history[mark:] if r.verb == "STATU" and r.src[0] != SPA_IP)
                if n_req > retries + 2 and not get_task.done():
                    get_task.cancel()
                    world.violate(PROP, "too-many-requests", f"transfer#{ti} start={start} length={length} retries={retries} profile={cfg['profile']}: "
                                  f"{n_req} STATU requests sent and the call is still going, configured {retries}")
            try:
                ok = get_task.result()
            except asyncio.CancelledError:
                raise
            except Exception as e:
                world.violate(PROP, "transfer-raised", f"transfer#{ti} start={start} length={length} retries={retries} profile={cfg['profile']}: the call "
                              f"neither succeeded nor reported failure, it raised {type(e).__name__}: {e} (request number in use: "
                              f"{getattr(protocol, '_sequence_counter_protocol', '?')})", sig="transfer-raised:" + type(e).__name__)
            t1 = world.now()
            new = struct.status_block
            hist = world.net.history[mark:]
            statu = [r for r in hist if r.verb == "STATU" and r.src[0] != SPA_IP]
            world.log.add("transfer-end", ti, bool(ok), len(statu), len(installs))
            res.stats["transfers"] = res.stats.get("transfers", 0) + 1
            ctx = f"transfer#{ti} start={start} length={length} retries={retries} profile={cfg['profile']}"

            if len(new) != 1024:
                world.violate(PROP, "block-length", f"{ctx}: block length became {len(new)}")
            if len(statu) > retries:
                world.violate(PROP, "too-many-requests", f"{ctx}: {len(statu)} STATU requests sent, configured {retries}")
            if ok:
                res.stats["ok"] = res.stats.get("ok", 0) + 1
                if len(installs) != 1:
                    world.violate(PROP, "install-count", f"{ctx}: success with {len(installs)} installs")
                bad_req = [i for i in range(start, start + length) if new[i] != spa_block[i]]
                if bad_req:
                    world.violate(PROP, "wrong-bytes", f"{ctx}: requested byte {bad_req[0]} is {new[bad_req[0]]:#x}, spa has "
                                  f"{spa_block[bad_req[0]]:#x} ({len(bad_req)} bad)",
                                  detail={"first_bad": bad_req[0], "count": len(bad_req)})
                bad_other = [i for i in range(1024) if not (start <= i < start + length)
                             and new[i] != old[i] and new[i] != spa_block[i]]
                if bad_other:
                    world.violate(PROP, "foreign-bytes", f"{ctx}: byte {bad_other[0]} outside the request changed to a value "
                                  f"that is not the spa's")
                if any(new[i] != old[i] for i in range(1024) if not (start <= i < start + length)):
                    res.probe("over_read")
                if len(statu) >= 3:
                    res.probe("succeeded_on_attempt_ge3")
            else:
                res.stats["failed"] = res.stats.get("failed", 0) + 1
                if installs:
                    world.violate(PROP, "install-on-failure", f"{ctx}: get() reported failure but {len(installs)} install(s) happened")
                if new != old:
                    world.violate(PROP, "failure-touched-block", f"{ctx}: get() reported failure but the block changed")
                res.probe("all_attempts_failed")
                if res.faultfree:
                    sig = "faultfree-fail:len%39==0" if length % SEG == 0 else "faultfree-fail:other"
                    world.violate(PROP, "faultfree-fail", f"{ctx}: transfer failed on a fault-free network "
                                  f"({len(statu)} requests, {t1 - t0:.1f}s)", sig=sig,
                                  detail={"start": start, "length": length})
            if length % SEG == 0:
                res.probe("length_multiple_of_39")
            # probes / shape from the wire
            pattern = []
            seen_final_dup = False
            for r in hist:
                if r.verb == "STATV":
                    inner = inner_of(r.data)
                    idx, nxt = inner[5], inner[6]
                    nd = len(r.deliveries)
                    pattern.append((idx, r.fate, nd))
                    if r.fate != "ok":
                        res.probe("lost_final_segment" if nxt == 0 else "lost_segment")
                    if nd > 1:
                        res.probe("dup_segment")
                        if nxt == 0:
                            seen_final_dup = True
                elif r.verb == "STATU":
                    pattern.append(("U", r.fate, len(r.deliveries)))
            order = [(r.seq) for r in sorted((r for r in hist if r.verb == "STATV" and r.deliveries),
                                             key=lambda r: r.deliveries[0][0])]
            if order != sorted(order):
                res.probe("reordered_segments")
            if seen_final_dup:
                res.probe("dup_final_segment")
            if sum(res.faults.values()) > faults_before:
                res.nontrivial = True
            shapes.append(mix(0, repr(pattern)))
            await drained(world, protocol)
    finally:
        struct.replace_status_block_segment = orig_replace
        world.net.healed = True
        world.loop.stalls_on = False
        try:
            await spa.disconnect()
        except Exception:
            pass
        for t in list(spa._taskman._tasks):
            t.cancel()
    res.shape = format(mix(0, repr(shapes)), "x")
    if res.faultfree:
        res.nontrivial = True
    res.sample = {"profile": cfg["profile"], "snapshot": cfg["snapshot"],
                  "plan": [(o.get("start", o.get("ranges")), o.get("length"), o["retries"]) for o in world.case["plan"][:6]],
                  "faults": dict(res.faults)}


async def drained(world: WorldA, protocol) -> None:
    """Between two transfers the connection's receive queue empties (the library discards what nobody claims).  If it does not within two
    minutes the next transfer starts all the same: what it then makes of the left-overs is the library's doing, and is judged."""
    try:
        await world.quiesce(extra_idle=0.25, cap=120.0, queues=[protocol.queue])
    except HarnessError:
        if protocol.queue.qsize() == 0:
            raise
        world.result.probe("receive_queue_not_drained_between_transfers")


async def run_pair(world: WorldA, ti: int, op: Dict[str, Any], spa, struct, protocol, peer, snap_block: bytes, installs: List[Any]) -> None:
    """Two concurrent transfers of different ranges on one connection."""
    from geckolib.driver import GeckoStatusBlockProtocolHandler

    res = world.result
    cfg = world.cfg
    old = struct.status_block
    spa_block = make_block(op["block"], op["bseed"], old, snap_block)
    peer.set_block(spa_block)
    mark = len(world.net.history)
    del installs[:]
    retries = op["retries"]
    world.log.add("pair-begin", ti, repr(op["ranges"]), retries)

    def call(start: int, length: int):
        return struct.get(protocol, lambda: GeckoStatusBlockProtocolHandler.request(
            protocol.get_and_increment_sequence_counter(False), start, length, parms=spa.sendparms), retry_count=retries)

    (s1, l1), (s2, l2) = op["ranges"]
    t1 = asyncio.ensure_future(call(s1, l1))
    t1.set_name("HARNESS:get-a")
    by = op.get("bystander")
    tw = None

    async def bystander():
        from geckolib.driver import GeckoPingProtocolHandler

        await asyncio.sleep(by["after"])
        if by["kind"] == "ping":
            inner = protocol.get(lambda: GeckoPingProtocolHandler.request(parms=spa.sendparms), None, 1)
        else:
            # (not another status-block request: abandoned after it was sent, its reply would be a stale chain under way during the next
            #  transfer, which the statement excludes)
            from geckolib.driver import GeckoWatercareProtocolHandler

            inner = protocol.get(lambda: GeckoWatercareProtocolHandler.request(
                protocol.get_and_increment_sequence_counter(False), parms=spa.sendparms), None, 1)
        waiting_at_start = protocol.Lock.locked()
        if by["how"] == "wait_for":
            try:
                await asyncio.wait_for(inner, by["give_up"] or 0.0001)
            except asyncio.TimeoutError:
                if waiting_at_start:
                    res.probe("abandoned_waiter_on_busy_connection")
        else:
            t = asyncio.ensure_future(inner)
            t.set_name("HARNESS:bystander-inner")
            await asyncio.sleep(by["give_up"])
            if not t.done():
                t.cancel()
                if waiting_at_start:
                    res.probe("abandoned_waiter_on_busy_connection")
            try:
                await t
            except asyncio.CancelledError:
                pass

    if by and by["before_second"]:
        tw = asyncio.ensure_future(bystander())
        tw.set_name("HARNESS:bystander")
    if op["offset"]:
        await asyncio.sleep(op["offset"])
    t2 = asyncio.ensure_future(call(s2, l2))
    t2.set_name("HARNESS:get-b")
    if by and not by["before_second"]:
        tw = asyncio.ensure_future(bystander())
        tw.set_name("HARNESS:bystander")
    pending = {t1, t2}
    while pending:
        _, pending = await asyncio.wait(pending, timeout=1.0)
        n_req = sum(1 for r in world.net.history[mark:] if r.verb == "STATU" and r.src[0] != SPA_IP)
        if n_req > 2 * retries + 2 and pending:
            for t in pending:
                t.cancel()
            world.violate(PROP, "too-many-requests", f"pair#{ti} ranges={op['ranges']} retries={retries}: {n_req} STATU requests sent and the calls are still going")
    try:
        ok1, ok2 = t1.result(), t2.result()
    except asyncio.CancelledError:
        raise
    except Exception as e:
        world.violate(PROP, "transfer-raised", f"pair#{ti} ranges={op['ranges']}: a call neither succeeded nor reported failure, it raised "
                      f"{type(e).__name__}: {e}", sig="transfer-raised:" + type(e).__name__)
    if tw is not None:
        try:
            await asyncio.wait_for(tw, 60.0)
        except asyncio.TimeoutError:
            world.violate(PROP, "transfer-raised", f"pair#{ti}: the abandoned third caller had not finished 60s after both transfers", sig="bystander-stuck")
        except asyncio.CancelledError:
            raise
        except Exception as e:
            world.violate(PROP, "transfer-raised", f"pair#{ti} ranges={op['ranges']} bystander={by}: the third caller's request raised {type(e).__name__}: {e}",
                          sig="transfer-raised:bystander:" + type(e).__name__)
    new = struct.status_block
    ctx = f"pair#{ti} ranges={op['ranges']} offset={op['offset']} retries={retries} profile={cfg['profile']} results={bool(ok1)},{bool(ok2)} bystander={by}"
    res.probe("concurrent_transfers")
    res.stats["transfers"] = res.stats.get("transfers", 0) + 2
    n_ok = int(bool(ok1)) + int(bool(ok2))
    if len(installs) != n_ok:
        world.violate(PROP, "install-count", f"{ctx}: {n_ok} call(s) succeeded but {len(installs)} install(s) happened")
    covered = set()
    for ok, (s0, l0) in ((ok1, (s1, l1)), (ok2, (s2, l2))):
        if ok:
            covered.update(range(s0, s0 + l0))
            bad = [i for i in range(s0, s0 + l0) if new[i] != spa_block[i]]
            if bad:
                world.violate(PROP, "wrong-bytes", f"{ctx}: requested byte {bad[0]} of range ({s0},{l0}) is {new[bad[0]]:#x}, spa has {spa_block[bad[0]]:#x} "
                              f"({len(bad)} bad)", sig="wrong-bytes:concurrent-transfers")
    other = [i for i in range(1024) if i not in covered and new[i] != old[i] and new[i] != spa_block[i]]
    if other:
        world.violate(PROP, "foreign-bytes", f"{ctx}: byte {other[0]} outside the successful requests changed to a value that is not the spa's",
                      sig="foreign-bytes:concurrent-transfers")
    if n_ok == 0 and new != old:
        world.violate(PROP, "failure-touched-block", f"{ctx}: both calls reported failure but the block changed")
    if res.faultfree and n_ok < 2:
        world.violate(PROP, "faultfree-fail", f"{ctx}: a transfer failed on a fault-free network", sig="faultfree-fail:concurrent-transfers")
    world.log.add("pair-end", ti, bool(ok1), bool(ok2), len(installs))


def run_case(case: Dict[str, Any], replay: Optional[Dict[str, Any]] = None, keep_log: bool = False) -> RunResult:
    if case.get("world") == "T":
        from props import c01_t

        return c01_t.run_case(case, replay, keep_log)
    world = WorldA(case, replay, keep_log=keep_log)
    return world.run(scenario)


# ---------------------------------------------------------------------------------------------------
# driver interface
# ---------------------------------------------------------------------------------------------------
BUDGET = {"quick": 40, "thorough": 600}
RULE = ("Each run = one real GeckoAsyncSpa handshake with the real GeckoSimulator, then a seeded plan of 4-20 status-block "
        "transfers (drawn block contents, (start,length) biased to 39-byte boundaries, drawn retry count) under a drawn "
        "fault profile (loss / duplication / delay+reorder / simulator unreliability / loop stalls / mixed / fault-free). "
        "Plus fault-free sweeps over (start,length). A run is non-trivial if at least one fault fired while a transfer was "
        "open, or it is a fault-free run (which carries the must-succeed obligation); distinct = distinct event-log digest.")
SHAPE_MEASURE = "hash of the per-transfer wire pattern (per STATU/STATV datagram: segment index, fate, delivery count)"
COMPONENTS = {
    "real": ["World T (1 run in 3): GeckoStructure.retry_request/_on_status_block_received on the real GeckoUdpSocket engine thread, simulator engine thread",
             "GeckoAsyncSpa (handshake, consumers, ping loop)", "GeckoAsyncStructure.get", "GeckoAsyncUdpProtocol + AsyncPeekableQueue",
             "all protocol handlers", "GeckoSimulator handlers + GeckoStructure", "GeckoUdpSocket._thread_func (simulator engine, stepped)"],
    "stub": ["OS sockets -> SimNet", "wall clock -> virtual clock", "event loop selector -> SimLoop", "simulator random -> seeded stream"],
}
ASSUMPTIONS = [
    "datagrams are never corrupted (UDP checksum)",
    "delays are shorter than the gap between distinct transfers: the harness waits for network and queue quiescence between transfers",
    "the spa block is constant during one transfer",
    "SimLoop runs ready callbacks FIFO and timers in deadline order, like CPython's loop",
]
PROBES = ["concurrent_transfers", "abandoned_waiter_on_busy_connection", "lost_segment", "lost_final_segment", "dup_segment", "dup_final_segment", "reordered_segments",
          "succeeded_on_attempt_ge3", "all_attempts_failed", "over_read", "length_multiple_of_39"]
EXHAUSTIVE = {"quick": False, "thorough": False}
N_QUICK = 3000


def jobs(tier: str, base_seed: int):
    if tier == "quick":
        # fault-free: every length at start 0, and every start with the run to the end of the block
        for lo in range(1, 1025, 64):
            yield {"kind": "sweep", "start": 0, "lengths": list(range(lo, min(lo + 64, 1025))), "mandatory": True}
        for s0 in range(1, 1024, 128):
            yield {"kind": "sweep-tail", "starts": list(range(s0, min(s0 + 128, 1024), 3)), "mandatory": True}
        for i in range(0, N_QUICK, 8):
            yield {"kind": "seeded", "first": i, "count": 8, "mandatory": True}
    else:
        # the complete fault-free (start,length) triangle, then seeded faulty runs until the budget is used
        for start in range(0, 1024):
            n = 1024 - start
            for lo in range(1, n + 1, 256):
                yield {"kind": "sweep", "start": start, "lengths": list(range(lo, min(lo + 256, n + 1))), "mandatory": True}
        i = 0
        while True:
            yield {"kind": "seeded", "first": i, "count": 8}
            i += 8


def job_cases(job, tier: str, base_seed: int):
    from sim.driver import run_seed

    if job["kind"] == "seeded":
        for i in range(job["first"], job["first"] + job["count"]):
            c = gen_case(run_seed(PROP, base_seed, i), tier, i)
            c["subspace"] = f"seeded:world{c['world']}:" + c["cfg"]["profile"]
            yield c
    elif job["kind"] == "sweep":
        c = sweep_case(mix(base_seed, "sweep", job["start"], job["lengths"][0]) & 0xFFFFFFFF, job["start"], job["lengths"])
        c["subspace"] = "faultfree-sweep"
        yield c
    elif job["kind"] == "sweep-tail":
        cfg_case = sweep_case(mix(base_seed, "tail", job["starts"][0]) & 0xFFFFFFFF, 0, [])
        cfg_case["plan"] = [{"op": "transfer", "start": s, "length": 1024 - s, "block": "random",
                             "bseed": mix(base_seed, s) & 0xFFFFFFFF, "retries": 2} for s in job["starts"]]
        cfg_case["subspace"] = "faultfree-sweep"
        yield cfg_case


def evidence_extra(tier: str, total) -> Dict[str, Any]:
    sweeps = total.subspaces.get("faultfree-sweep", 0)
    out = {"faultfree_sweep_cases": sweeps, "transfers": int(total.stats.get("transfers", 0))}
    if tier == "thorough":
        out["exhaustive_subclaim"] = ("the fault-free (start,length) triangle (all 524800 pairs with length>=1, start+length<=1024) "
                                      "is enumerated completely; the faulty part is sampled")
    else:
        out["exhaustive_subclaim"] = "quick enumerates all lengths at start 0 and every third start with the maximal length; the rest is sampled"
    return out


def shrink_case(case):
    """Numeric shrinking candidates: simpler transfers."""
    plan = case.get("plan", [])
    for i, op in enumerate(plan):
        for key, target in (("retries", 1), ("retries", 2), ("start", 0)):
            if op.get(key) != target and (key != "start" or op["length"] + 0 <= 1024):
                c = json_copy(case)
                c["plan"][i][key] = target
                yield c
        if op.get("block") != "random":
            c = json_copy(case)
            c["plan"][i]["block"] = "random"
            yield c


def json_copy(o):
    import json

    return json.loads(json.dumps(o))
