"""C13, World T: the blocking facade's commands (the 'sync twins') emit exactly the intended device write and are idempotent."""

from __future__ import annotations

import os
import random
from typing import Any, Dict

from sim.core import HarnessError, mix
from sim.net import SPA_IP, SPA_PORT
from sim.peers import load_snapshot, make_simulator, model_spa_class, repo_root
from sim.worldt import WorldT

PROP = "C13"


def gen_case(seed: int, tier: str, index: int, base_gen) -> Dict[str, Any]:
    c = base_gen(seed, tier, index)
    c["world"] = "T"
    cfg = c["cfg"]
    cfg.pop("loop", None)
    rng = random.Random(mix(seed, "c13t"))
    cfg["sched"] = {"cost_p": 0.2, "cost_max": 0.002}
    cfg["tables"] = {"idle": {"PING_FREQUENCY_IN_SECONDS": rng.choice([2, 5, 15]), "FACADE_UPDATE_FREQUENCY_IN_SECONDS": rng.choice([2, 5, 30]),
                              "SPA_PACK_REFRESH_FREQUENCY_IN_SECONDS": rng.choice([5, 30])}}
    # the blocking stack is fire-and-forget and paced at 50 datagrams/s: keep histories moderate, no 45 s gaps
    plan = c["plan"][:rng.randint(12, 40)]
    for op in plan:
        op["gap"] = min(op["gap"], 3.0)
        op.pop("sync", None)
        op["overlap"] = False
        if op["op"].startswith("watercare") and rng.random() < 0.6:
            # made in the very moment the facade's update thread has a watercare poll in flight (its stale answer arrives after the command)
            op["behind_poll"] = True
    c["plan"] = plan
    return c


def scenario(world: WorldT) -> None:
    from geckolib.spa_descriptor import GeckoSpaDescriptor

    from props.c13 import build_command, judge

    cfg = world.cfg
    res = world.result
    res.faultfree = True
    with world.host(SPA_IP):
        model = make_simulator(model_spa_class())
        snap = load_snapshot(os.path.join(repo_root(), "tests", "snapshots", cfg["snapshot"]))
        model.set_snapshot(snap)
        model.do_start("")
    ident = (model.pack_type, snap.config_version, snap.log_version)
    desc = GeckoSpaDescriptor(b"IOSverif-T", b"SPA01:02:03:04:05:06", "Udp Test Spa", (SPA_IP, SPA_PORT))
    facade = desc.get_facade(False)
    if not world.wait_until(lambda: facade.is_connected, 44):
        # the scene cannot be set; if what the wire shows already explains it in this property's terms, that is the verdict: datagrams that one
        # party queued were transmitted from the other party's endpoint (a client's command would leave from somebody else's socket and its
        # echo would go there)
        client_verbs = {"AVERS", "CURCH", "SFILE", "STATU", "APING", "SPACK", "GETWC", "REQRM"}
        stray = [r for r in world.net.history if r.verb in client_verbs and r.src[0] == SPA_IP]
        if stray:
            world.violate("C13", "wrong-command", f"[blocking] the client cannot connect on a benign network: {len(stray)} of its own requests "
                          f"({sorted({r.verb for r in stray})}) left from the spa's endpoint {stray[0].src} instead of its own: what one socket object "
                          f"queues another one transmits, so a facade command is not sent by the client that issued it",
                          sig="wrong-command:sent-from-another-socket")
        raise HarnessError("blocking facade did not connect on a benign network")
    spa = facade.spa
    # one full update cycle of the facade (watercare mode known)
    world.wait_until(lambda: facade.water_care.mode is not None, 60)
    world.sleep(1.0)

    def settle() -> None:
        world.wait_until(lambda: world.net.in_flight() == 0 and not model._socket._send_handlers and not spa._send_handlers
                         and not spa._socket.inbox and not model._socket._socket.inbox, 120, step=0.05)
        world.sleep(0.3)
        world.wait_until(lambda: world.net.in_flight() == 0 and not model._socket._send_handlers and not spa._send_handlers
                         and not spa._socket.inbox and not model._socket._socket.inbox, 120, step=0.05)

    for ci, op in enumerate(world.case["plan"]):
        if not facade.is_connected:
            raise HarnessError("blocking connection was lost on a benign network")
        if op["gap"]:
            world.sleep(op["gap"])
        if op.get("behind_poll"):
            n0 = sum(1 for r in world.net.history if r.verb == "GETWC" and r.src[0] != SPA_IP)
            if world.wait_until(lambda: sum(1 for r in world.net.history if r.verb == "GETWC" and r.src[0] != SPA_IP) > n0, 40.0, step=0.005):
                res.probe("blocking_watercare_command_while_a_poll_is_in_flight")
        mark = len(model.commands)
        built = build_command(op, ci, facade, spa, res, cfg["snapshot"], sync=True, model=model)
        if built is None:
            continue
        ctx, expect, thunk = built
        ctx = "[blocking] " + ctx
        res.stats["commands"] = res.stats.get("commands", 0) + 1
        res.probe("blocking_command")
        first = None
        if op.get("twin") and op["op"] in ("target_temp", "pump_mode"):
            # two commands for the same setting in one instant (a thermostat slider, a double click): they take effect in the order they were
            # made, so the setting ends at the second one
            first = build_command(dict(op, arg=op["arg"] + 1), ci, facade, spa, res, cfg["snapshot"], sync=True, model=model)
        try:
            if first is not None:
                first[2]()
                res.probe("two_blocking_commands_for_one_setting_in_one_instant")
            thunk()
        except Exception as e:
            world.violate(PROP, "command-raised", f"{ctx}: raised {type(e).__name__}: {e}")
        settle()
        real = list(model.commands[mark:])
        if first is not None:
            if len(real) != 2:
                world.violate(PROP, "command-count", f"{ctx} right after {first[0]}: {len(real)} command datagram(s) reached the spa, expected 2",
                              sig="command-count:" + ("extra" if len(real) > 2 else "missing"))
            ctx = f"{ctx} (made right after {first[0]}: the second command decides)"
            real = real[1:]
        judge(world, ctx, expect, real, model, spa, facade, ident)
    settle()
    if spa.struct.status_block != model.structure.status_block:
        diff = [i for i in range(1024) if spa.struct.status_block[i] != model.structure.status_block[i]]
        world.violate(PROP, "readback", f"[blocking] after the command history the client block differs from the spa's at {diff[:8]}")
    facade.complete()
    model._socket.close()
    res.nontrivial = res.stats.get("commands", 0) > 0
    res.shape = "T" + format(mix(0, repr(sorted(res.probes.items()))), "x")
    res.sample = {"world": "T", "snapshot": cfg["snapshot"], "commands": int(res.stats.get("commands", 0)), "first": world.case["plan"][:5]}


def run_case(case, replay=None, keep_log=False):
    return WorldT(case, replay, keep_log=keep_log).run(scenario)
