"""C17 — active/idle configuration switching is complete and wakes every sleeper."""

from __future__ import annotations

import asyncio
import random
from typing import Any, Dict, List, Optional

from sim.core import HarnessError, RunResult, mix
from sim.notify import decode
from sim.peers import snapshot_files
from sim.system import System, draw_tables
from sim.worlda import WorldA

PROP = "C17"
LEVEL = "exploration"
EPS = 0.002


def gen_case(seed: int, tier: str, index: int) -> Dict[str, Any]:
    rng = random.Random(mix(seed, "c17.case"))
    kind = "system" if index % 5 == 4 else "pure"
    tables = draw_tables(rng, fast=True)
    loop_cfg: Dict[str, Any] = {"cost_small_p": rng.choice([0.0, 0.2, 0.5]), "cost_small_max": rng.choice([0.001, 0.01])}
    if rng.random() < 0.5:
        loop_cfg.update(cost_stall_p=rng.choice([0.01, 0.05]), cost_stall_min=0.01, cost_stall_max=rng.choice([0.1, 0.5, 2.0]))
    dur = rng.choice([20, 60, 200, 400]) if kind == "pure" else rng.choice([40, 100])
    plan: List[Dict[str, Any]] = []
    nsleep = rng.randint(1, 20) if kind == "pure" else rng.randint(1, 6)
    nswitch = rng.randint(0, 12)
    times = sorted(round(rng.uniform(0.1, dur), 3) for _ in range(nswitch))
    for t in times:
        plan.append({"op": "switch", "t": t, "active": rng.random() < 0.5})
    for k in range(nsleep):
        reps = rng.randint(1, 4)
        t = rng.uniform(0.0, dur / 2)
        for _ in range(reps):
            d = rng.choice([0.0, 0.05, 0.1, 1.0, rng.uniform(0, 10), rng.uniform(0, 200)])
            # sometimes start exactly at a switch instant (same callback boundary)
            if times and rng.random() < 0.25:
                t = rng.choice(times)
            plan.append({"op": "sleep", "t": round(t, 3), "d": round(d, 3), "who": k})
            t += d * rng.choice([0.3, 1.0, 1.2]) + rng.choice([0.0, 0.01, 1.0])
    if kind == "system":
        # spa-side device flips that make the facade switch mode
        for _ in range(rng.randint(2, 10)):
            plan.append({"op": "flip", "t": round(rng.uniform(1.0, dur), 3), "dev": rng.randrange(6), "on": rng.random() < 0.5, "form": rng.randrange(3)})
        # ... and flips whose report never reaches the client (form 3): it learns the new state from its next periodic refresh
        rng_u = random.Random(mix(seed, "c17.unreported"))
        for _ in range(rng_u.choice([0, 1, 2, 4])):
            plan.append({"op": "flip", "t": round(rng_u.uniform(1.0, dur), 3), "dev": rng_u.randrange(6), "on": rng_u.random() < 0.6, "form": 3})
        # reconnect cycles: the timing table is process-wide and outlives a facade, so a device that changes while the client is
        # away must still be reflected once the new facade is ready
        for _ in range(rng.choice([0, 1, 1, 2])):
            t0 = round(rng.uniform(2.0, dur - 8), 3)
            plan.append({"op": "reset", "t": t0})
            plan.append({"op": "flip", "t": round(t0 + rng.choice([0.05, 0.5, 1.5]), 3), "dev": rng.randrange(6), "on": rng.random() < 0.3, "form": rng.randrange(3)})
            plan.append({"op": "flip", "t": round(t0 + rng.choice([0.1, 0.8, 2.0]), 3), "dev": rng.randrange(6), "on": False, "form": rng.randrange(3)})
    if kind == "system" and rng.random() < 0.5:
        # the shipped timing tables (idle: a ping a minute), and a device switched on and off again within one ping round trip: the
        # second report arrives before the first ping of the freshly installed active table has been answered
        tables = None
        dur = max(dur, 150)
        for _ in range(rng.randint(1, 4)):
            t0 = round(rng.uniform(5.0, dur - 5), 3)
            dev, form = rng.randrange(6), rng.randrange(3)
            plan.append({"op": "flip", "t": t0, "dev": dev, "on": True, "form": form})
            plan.append({"op": "flip", "t": round(t0 + rng.choice([0.0, 0.01, 0.05, 0.3, 1.0]), 3), "dev": dev, "on": False, "form": form, "same_as_previous": True})
    plan.sort(key=lambda o: (o["t"], o["op"] != "switch"))
    snaps = [s for s in snapshot_files()]
    rem = random.Random(mix(seed, "c17.reminders")).choice([None, None, "none", "one"])
    cfg = {"kind": kind, "net": {"lat_min": 0.001, "lat_max": 0.004}, "loop": loop_cfg, "tables": tables, "duration": dur, "peer_reminders": rem,
           "snapshot": snaps[rng.randrange(len(snaps))].split("/")[-1]}
    return {"property": PROP, "world": "A", "seed": seed, "cfg": cfg, "plan": plan}


class ConfigMonitor:
    """After every callback: the live config equals all of the active table or all of the idle table."""

    def __init__(self, world: WorldA):
        from geckolib import config as cfgmod

        self.world = world
        self.cfgmod = cfgmod
        from sim.seams import CONFIG_MEMBER_NAMES

        self.members = list(CONFIG_MEMBER_NAMES)
        missing = [m for m in self.members if not hasattr(cfgmod._GeckoActiveConfig, m)]
        if missing:
            raise HarnessError(f"timing table members no longer exist: {missing}")
        self.expected_mode: Optional[bool] = None     # what the last switch asked for
        self.bad: Optional[str] = None
        self.samples = 0
        # the two tables as they stand when the run starts (the per-run values the harness installed, or the shipped ones), copied once:
        # what "the complete active / idle table" means must not follow whatever a switch may do to the table objects themselves
        self._a = {m: getattr(cfgmod._GeckoActiveConfig, m) for m in self.members}
        self._i = {m: getattr(cfgmod._GeckoIdleConfig, m) for m in self.members}
        drawn = world.cfg.get("tables") or {}
        for m, v in (drawn.get("active") or {}).items():
            if self._a.get(m) != v:
                raise HarnessError(f"active table member {m} is {self._a.get(m)!r} at the start of the run, the harness installed {v!r}")
        for m, v in (drawn.get("idle") or {}).items():
            if self._i.get(m) != v:
                raise HarnessError(f"idle table member {m} is {self._i.get(m)!r} at the start of the run, the harness installed {v!r}")

    def tables(self):
        return dict(self._a), dict(self._i)

    def mode(self) -> Optional[str]:
        live = {m: getattr(self.cfgmod.GeckoConfig, m) for m in self.members}
        a, i = self.tables()
        if live == a and live == i:
            return "both"
        if live == a:
            return "active"
        if live == i:
            return "idle"
        return None

    def __call__(self) -> None:
        self.samples += 1
        m = self.mode()
        if m is None and self.bad is None:
            live = {k: getattr(self.cfgmod.GeckoConfig, k) for k in self.members}
            a, i = self.tables()
            mixed = {k: v for k, v in live.items() if not (v == a[k] and v == i[k])}
            self.bad = f"live config is a mixture at t={self.world.now():.3f}: {mixed} (active={ {k: a[k] for k in mixed} }, idle={ {k: i[k] for k in mixed} })"
        elif self.expected_mode is not None and m not in ("both", "active" if self.expected_mode else "idle") and self.bad is None:
            self.bad = f"a switch to {'active' if self.expected_mode else 'idle'} was requested but the live table is {m} at t={self.world.now():.3f}"


async def scenario(world: WorldA) -> None:
    from geckolib import config as cfgmod

    cfg = world.cfg
    res = world.result
    mon = ConfigMonitor(world)
    sleeps: List[Dict[str, Any]] = []
    switches: List[Dict[str, Any]] = []
    sysm = None
    facade_ready: Dict[int, bool] = {}
    facade_bad: List[str] = []

    def do_switch(active: bool, by: str) -> None:
        switches.append({"t": world.now(), "seq": world.log.add("switch", active, by), "active": active, "by": by})
        mon.expected_mode = active
        cfgmod.set_config_mode(active)

    async def sleeper(op: Dict[str, Any]) -> None:
        rec = {"s": world.now(), "s_seq": world.log.add("sleep-start", op["who"], op["d"]), "d": op["d"], "who": op["who"],
               "stall0": world.clock.stall_total_ns}
        sleeps.append(rec)
        await cfgmod.config_sleep(op["d"])
        rec["w"] = world.now()
        rec["w_seq"] = world.log.add("sleep-wake", op["who"])
        rec["stall1"] = world.clock.stall_total_ns

    def facade_monitor() -> None:
        f = sysm.man.facade
        if f is None or not facade_ready.get(id(f)) or facade_bad:
            return
        devs = list(f.pumps) + list(f.blowers)
        # "on" is decided from the client's own status block with an independent decoder of the device's state item (two-valued or
        # OFF/LOW/HIGH enumerations, booleans): not from the library's is_on
        blk = f.spa.struct.status_block
        on_keys = []
        for d in devs:
            # the output's own state item carries the device's key as its name (P1..P5, BL, Waterfall): looked up by that name, not through
            # the library's table of which item a device watches
            acc = f.spa.struct.accessors.get(d.key)
            if acc is None:
                raise HarnessError(f"no state item named {d.key!r} for device {d!r}")
            v = decode(acc, blk)
            if v not in ("OFF", False, "", None):
                on_keys.append(d.key)
        want = bool(on_keys)
        if want != any(d.is_on for d in devs):
            facade_bad.append(f"t={world.now():.3f}: the state items say on={on_keys} but the devices' is_on say {[d.key for d in devs if d.is_on]}")
            return
        res.probes["facade_wants_active" if want else "facade_wants_idle"] = res.probes.get("facade_wants_active" if want else "facade_wants_idle", 0) + 1
        m = mon.mode()
        if m not in ("both", "active" if want else "idle"):
            facade_bad.append(f"t={world.now():.3f}: pumps/blowers on={[d.key for d in devs if d.is_on]} but the live table is {m}")

    async def body() -> None:
        base = world.now()
        # a first sleeper so that the shared future exists before any switch (as AsyncTasks' tidy loop does)
        first = asyncio.create_task(cfgmod.config_sleep(0.01), name="HARNESS:first-sleeper")
        await asyncio.sleep(0)
        world.loop.monitors.append(mon)
        if sysm is not None:
            world.loop.monitors.append(facade_monitor)
        world.loop.stalls_on = True
        tasks: List[asyncio.Task] = [first]
        last_by_who: Dict[int, asyncio.Task] = {}
        for op in world.case["plan"]:
            wait = base + op["t"] - world.now()
            if wait > 0:
                await asyncio.sleep(wait)
            if op["op"] == "switch":
                if sysm is None:
                    do_switch(op["active"], "harness")
            elif op["op"] == "sleep":
                prev = last_by_who.get(op["who"])
                if prev is not None and not prev.done():
                    continue            # one outstanding sleep per actor
                t = asyncio.create_task(sleeper(op), name=f"HARNESS:sleeper-{op['who']}-{len(tasks)}")
                last_by_who[op["who"]] = t
                tasks.append(t)
            elif op["op"] == "flip" and sysm is not None:
                flip(op)
            elif op["op"] == "reset" and sysm is not None:
                res.fault("user_reset")
                try:
                    await sysm.man.async_reset()
                except Exception:
                    res.probe("reset_raised")
        rest = base + cfg["duration"] - world.now()
        if rest > 0:
            await asyncio.sleep(rest)
        pend = [t for t in tasks if not t.done()]
        if pend:
            done, still = await asyncio.wait(pend, timeout=260)
            if still:
                world.violate(PROP, "sleeper-never-woke", f"{len(still)} sleeper(s) still asleep 260s after the end of the plan")
        world.loop.stalls_on = False

    def flip(op: Dict[str, Any]) -> None:
        model = sysm.peer.sim
        acc = model.structure.accessors
        keys = [k for k in ("P1", "P2", "P3", "P4", "P5", "BL", "Waterfall") if k in acc]
        if not keys:
            return
        key = keys[op["dev"] % len(keys)]
        a = acc[key]
        try:
            if a.type == "Bool":
                val = "True" if op["on"] else "False"
            else:
                on_vals = [i for i in a.items if i not in ("OFF", "")]
                val = (on_vals[0] if on_vals else "OFF") if op["on"] else "OFF"
            form = op.get("form", 0)
            if form == 3:
                before = model.structure.status_block
                a.value = val                           # the report is lost: nothing is sent
                if model.structure.status_block != before:
                    res.probe("flip_learnt_only_from_a_refresh")
            elif form == 0:
                model.do_set(f"{key}={val}")          # the simulator's own report: one byte at the item's address
            else:
                # a real spa reports a change as a position + word record: the word that starts at the state byte, or the one that
                # starts on the byte before it
                before = model.structure.status_block
                a.value = val                           # (no report: _send_structure_change is off)
                after = model.structure.status_block
                changed = [i for i in range(1024) if before[i] != after[i]]
                if changed:
                    p0 = changed[0] if form == 1 else changed[0] - 1
                    p0 = max(0, min(1022, p0))
                    model.emit_statp([(p0, after[p0:p0 + 2])])
                    res.probe("flip_reported_as_word_at_item" if form == 1 else "flip_reported_as_word_before_item")
            sysm.peer.kick()
            res.fault("spa_device_flip")
        except Exception:
            res.probe("flip_failed")

    if cfg["kind"] == "system":
        world.net.healed = True
        world.loop.stalls_on = False
        sysm = System(world)

        def on_delivery(d):
            pass
        async with sysm.man as man:
            await sysm.wait_connected(one_update=False)
            try:
                await asyncio.wait_for(man.facade.wait_for_one_update(), 240)
            except asyncio.TimeoutError:
                # the spa answers everything on a healthy network, yet the facade never completes the pass in which it looks at its pumps and
                # blowers and selects the timing table
                alive = sorted(t.get_name() for t in asyncio.all_tasks() if t.get_name().startswith("FACADE:") and not t.done())
                world.violate(PROP, "facade-mode-mismatch", f"the facade existed for 240s on a healthy network without completing its first update pass "
                              f"(the pass that selects active or idle from the pumps and blowers); its update task alive: {alive}; spa reminders: "
                              f"{cfg.get('peer_reminders', 'as the simulator ships them')}", sig="facade-mode-mismatch:first-pass-never-completes")
            facade_ready[id(man.facade)] = True
            keep: List[Any] = [man.facade]

            async def readiness() -> None:
                # a facade is judged only after it has completed one update cycle
                while True:
                    f = man.facade
                    if f is not None and id(f) not in facade_ready:
                        keep.append(f)
                        try:
                            await asyncio.wait_for(f.wait_for_one_update(), 120)
                            if man.facade is f:
                                facade_ready[id(f)] = True
                                res.probe("facade_ready_after_reconnect")
                        except asyncio.TimeoutError:
                            facade_ready[id(f)] = False
                    await asyncio.sleep(0.1)
            rtask = asyncio.create_task(readiness(), name="HARNESS:readiness")
            # the facade decides the mode from now on
            mon.expected_mode = None
            await body()
            rtask.cancel()
    else:
        await body()

    # ---- oracle -----------------------------------------------------------------------------------------
    if mon.bad:
        world.violate(PROP, "table-mixture" if "mixture" in mon.bad else "wrong-table", mon.bad)
    if facade_bad:
        world.violate(PROP, "facade-mode-mismatch", facade_bad[0])
    if sysm is not None:
        # switches in system runs are made by the facade: reconstruct them from mode samples is not possible here,
        # so for system runs only the no-oversleep bound is checked for sleepers (no switch knowledge needed)
        pass
    for r in sleeps:
        if "w" not in r:
            continue
        stall = (r["stall1"] - r["stall0"]) / 1e9
        over = r["w"] - (r["s"] + r["d"])
        if over > stall + EPS:
            world.violate(PROP, "overslept", f"sleeper {r['who']} asked for {r['d']}s at {r['s']:.3f}, woke at {r['w']:.3f} "
                          f"({over:.3f}s late, injected stall {stall:.3f}s)")
        if sysm is None:
            sw = [x for x in switches if x["seq"] > r["s_seq"] and x["t"] < r["s"] + r["d"] - EPS]
            if sw:
                first = sw[0]
                lag = r["w"] - first["t"]
                st = world.clock.stall_between(first["t"], r["w"])
                res.probe("sleeper_interrupted_by_switch")
                if lag > st + EPS:
                    world.violate(PROP, "not-woken-by-switch", f"sleeper {r['who']} (asked {r['d']}s at {r['s']:.3f}) was asleep when the "
                                  f"mode was switched at {first['t']:.3f} but woke only at {r['w']:.3f} (injected stall {st:.3f}s)")
                if any(abs(x["t"] - r["s"]) < 1e-6 for x in sw):
                    res.probe("switch_in_same_instant_as_sleep_start")
            else:
                res.probe("sleeper_ran_full_time")
    if len({x["active"] for x in switches}) == 2:
        res.probe("both_modes_requested")
    if sum(1 for r in sleeps) >= 10:
        res.probe("ten_or_more_sleeps")
    res.stats["sleeps"] = len(sleeps)
    res.stats["switches"] = len(switches)
    res.stats["monitor_samples"] = mon.samples
    res.nontrivial = len(sleeps) > 0 and (len(switches) > 0 or sysm is not None)
    res.faultfree = not (cfg["loop"].get("cost_stall_p"))
    res.shape = format(mix(0, repr((cfg["kind"], len(sleeps), len(switches), sum(1 for r in sleeps if "w" in r and r["w"] - r["s"] < r["d"] - EPS)))), "x")
    res.sample = {"kind": cfg["kind"], "plan": world.case["plan"][:8], "sleeps": len(sleeps), "switches": len(switches)}


def run_case(case: Dict[str, Any], replay: Optional[Dict[str, Any]] = None, keep_log: bool = False) -> RunResult:
    world = WorldA(case, replay, keep_log=keep_log)
    return world.run(scenario)


# ---------------------------------------------------------------------------------------------------
BUDGET = {"quick": 40, "thorough": 600}
RULE = ("Pure runs: 1-20 harness tasks call config_sleep(d) (d from 0 to 200 s) at drawn instants, also in the same instant as a "
        "switch, while 0-12 set_config_mode calls are made at drawn instants, under drawn callback costs/stalls and drawn active/idle "
        "tables; a monitor reads the live config after every callback. System runs (1 in 5): the full real client with the model spa "
        "flipping pump/blower state bytes, so the facade switches mode; the invariant 'active table iff some pump or blower is on' is "
        "sampled after every callback once the facade completed one update. Non-trivial = at least one sleeper and one switch (or a "
        "system run); distinct = distinct event-log digest.")
SHAPE_MEASURE = "hash of (kind, sleeps, switches, sleepers woken early)"
COMPONENTS = {
    "real": ["config.set_config_mode", "config.config_sleep", "GeckoAsyncFacade._on_config_device_change", "pumps/blowers/sensors/accessors (system runs)",
             "full client stack (system runs)"],
    "stub": ["clock/selector", "spa device state changes -> ModelSpa via the simulator's real do_set path"],
}
ASSUMPTIONS = [
    "a shared change future exists before the first switch (AsyncTasks' tidy loop guarantees it in real use; the harness starts one sleeper first)",
    "'at once' = every moment between the switch and the wake is attributable to simulator-injected callback cost (+2 ms)",
    "only upper bounds are checked: the statement does not forbid an early wake",
]
PROBES = ["flip_learnt_only_from_a_refresh", "spa_reports_none_reminders", "flip_reported_as_word_at_item", "flip_reported_as_word_before_item", "facade_ready_after_reconnect", "facade_wants_active", "facade_wants_idle", "sleeper_interrupted_by_switch", "sleeper_ran_full_time", "switch_in_same_instant_as_sleep_start", "both_modes_requested", "ten_or_more_sleeps"]
N_QUICK = 4000


def jobs(tier: str, base_seed: int):
    if tier == "quick":
        for i in range(0, N_QUICK, 50):
            yield {"kind": "seeded", "first": i, "count": 50, "mandatory": True}
    else:
        i = 0
        while True:
            yield {"kind": "seeded", "first": i, "count": 50}
            i += 50


def job_cases(job, tier: str, base_seed: int):
    from sim.driver import run_seed

    for i in range(job["first"], job["first"] + job["count"]):
        c = gen_case(run_seed(PROP, base_seed, i), tier, i)
        c["subspace"] = "seeded:" + c["cfg"]["kind"]
        yield c
