"""C15, World T: the blocking GeckoLocator (threads: caller, socket engine, broadcast-retry thread).

The blocking locator has no identifier *filter* (it lists every spa that answers and only uses the requested identifier to finish
early; find_spa() selects afterwards), so the clause "lists only the requested identifier" is judged on the async locator only
(props/c15.py).  Everything else of the statement is judged here: each spa once with identity intact, early return on the requested
spa (identifier given as str or as bytes, or a static address), return after the initial wait otherwise, always within the timeout,
socket closed and both helper threads gone afterwards."""

from __future__ import annotations

import random
from typing import Any, Dict, List, Optional, Tuple

from sim.core import RunResult, mix
from sim.net import SPA_PORT
from sim.worldt import WorldT

PROP = "C15"
ITER = 0.05          # the engine's receive timeout: a datagram is dispatched within one iteration of its arrival
WAIT = 0.1           # the caller polls its termination conditions every 0.1 s


def gen_case(seed: int, tier: str, index: int, base_gen) -> Dict[str, Any]:
    c = base_gen(seed, tier, index)
    rng = random.Random(mix(seed, "c15t"))
    c["world"] = "T"
    cfg = c["cfg"]
    cfg.pop("loop", None)
    cfg["use_real"] = False
    cfg["more_rounds"] = []
    cfg["sched"] = {"cost_p": 0.2, "cost_max": 0.003}
    if rng.random() < 0.3:
        cfg["sched"].update(wall_jump_p=0.01, wall_jump_max=rng.choice([2.0, 3600.0]))
    cfg["filter"] = rng.choice(["none", "none", "ident", "ident_bytes", "ident_bytes", "ident_absent", "address", "address+ident", "address_nobody",
                                "empty_address"])
    return c


class Responder:
    def __init__(self, world: WorldT, spec: Dict[str, Any]):
        from geckolib.driver import GeckoHelloProtocolHandler

        self.world = world
        self.spec = spec
        self.addr = (spec["ip"], SPA_PORT)
        self.reply_addr = (spec["ip"], spec.get("reply_port", SPA_PORT))
        self.ident = spec["ident"].encode("latin1")
        self.name = spec["name"]
        # the reply is built here, independently of the library's encoder: <HELLO>identifier|name</HELLO>, name in latin-1
        self.payload = b"<HELLO>" + self.ident + b"|" + self.name.encode("latin-1") + b"</HELLO>"
        self.n = 0
        world.net.bind(self.addr, self)

    def deliver(self, data: bytes, src, rec) -> None:
        if data != b"<HELLO>1</HELLO>":
            return
        k = self.n
        self.n += 1
        replies = self.spec["replies"]
        if k < len(replies):
            for d in replies[k]:
                self.world.net.inject(self.reply_addr, src, self.payload, delay=d, who="responder")


def scenario(world: WorldT) -> None:
    from geckolib.locator import GeckoLocator

    cfg = world.cfg
    res = world.result
    res.faultfree = cfg["profile"] in ("clean", "multi", "names", "none")
    specs = world.case["plan"]
    responders = [Responder(world, s) for s in specs]
    everyone: List[Tuple[str, bytes, str]] = [(r.addr[0], r.ident, r.name) for r in responders]
    f, pick = cfg["filter"], cfg["pick"]
    target = everyone[pick % len(everyone)] if everyone else None
    kw: Dict[str, Any] = {}
    if f in ("ident", "address+ident") and target:
        kw["spa_to_find"] = target[1].decode("latin1")
    if f == "ident_bytes" and target:
        kw["spa_to_find"] = target[1]
        res.probe("identifier_given_as_bytes")
    if f == "ident_absent":
        kw["spa_to_find"] = "SPA99:99:99:99:99:99"
    if f in ("address", "address+ident") and target:
        kw["static_ip"] = target[0]
    if f == "address_nobody":
        kw["static_ip"] = "10.0.0.250"
    if f == "empty_address":
        kw["static_ip"] = ""
    initial, timeout = cfg["initial"], cfg["timeout"]
    threads_before = {id(t) for t in world.sched.threads if t.is_alive()}
    locator = GeckoLocator("verif-T", **kw)
    S = world.now()
    try:
        locator.start_discovery(True)
    except Exception as e:
        world.violate(PROP, "discover-raised", f"[blocking] start_discovery raised {type(e).__name__}: {e}")
    T_ret = world.now()
    listed = list(locator.spas)
    sock = locator._socket
    local = next((r.src for r in world.net.history if r.data == b"<HELLO>1</HELLO>"), None)      # the locator's own (ephemeral) address
    closed_on_return = not sock.isopen
    done = {"x": False}

    def _complete() -> None:
        locator.complete()
        done["x"] = True
    world.sched.spawn(_complete, "HARNESS:complete")
    if not world.wait_until(lambda: done["x"], 30.0, step=0.05):
        alive = [t.name for t in world.sched.threads if t.is_alive() and id(t) not in threads_before and not t.name.startswith("HARNESS")]
        world.violate(PROP, "helper-task-left", f"[blocking] complete() had not returned after 30s (it joins the retry thread); threads alive: {alive}",
                      sig="helper-task-left:complete-hangs")
    world.sleep(1.5)
    left = [t.name for t in world.sched.threads if t.is_alive() and id(t) not in threads_before and not t.name.startswith("HARNESS")]

    # ---- oracle ---------------------------------------------------------------------------------------------------
    label = "[blocking]"
    addr_filter = kw.get("static_ip") or None
    want = kw.get("spa_to_find")
    want_b = want.encode("latin1") if isinstance(want, str) else want
    arrivals: List[Tuple[float, Tuple[str, int]]] = []
    for r in world.net.history:
        if local is not None and r.dst == local and r.verb == "HELLO":
            for es, t in r.deliveries:
                arrivals.append((t, r.src))
    arrivals.sort()
    who = {ip: (ident, name) for ip, ident, name in everyone}
    first: Dict[bytes, Tuple[float, Tuple[str, int]]] = {}
    for t, src in arrivals:
        ident = who[src[0]][0]
        if ident not in first:
            first[ident] = (t, src)
    ctx = f"filter={f} kw={kw} initial={initial} timeout={timeout} S={S:.3f} T_ret={T_ret:.3f}"
    ids = [d.identifier for d in listed]
    if len(set(ids)) != len(ids):
        world.violate(PROP, "listed-twice", f"{label} a spa is listed more than once: {ids} ({ctx})")
    for d in listed:
        src = next(((ip, ident, name) for ip, ident, name in everyone if ident == d.identifier), None)
        if src is None:
            world.violate(PROP, "phantom-spa", f"{label} listed identifier {d.identifier!r} belongs to no responder ({ctx})")
        ip, ident, name = src
        if ident not in first or first[ident][0] > T_ret:
            world.violate(PROP, "phantom-spa", f"{label} listed {ident!r} but no reply of it had arrived ({ctx})")
        if d.name != name:
            world.violate(PROP, "name-mangled", f"{label} spa {ident!r} listed with name {d.name!r}, it sent {name!r} ({ctx})")
        came_from = tuple(first[ident][1])
        if came_from[1] != SPA_PORT:
            res.probe("reply_from_another_port")
        if tuple(d.destination) != came_from:
            world.violate(PROP, "address-mangled", f"{label} spa {ident!r} listed at {d.destination}, it answered from {came_from} ({ctx})")
    # listing is judged on what the locator held when start_discovery returned (later replies may still be appended until close)
    for ident, (t, src) in first.items():
        if t + 2 * ITER + 0.01 <= T_ret and ident not in ids:
            name = who[src[0]][1]
            world.violate(PROP, "missing-spa", f"{label} spa {ident!r} (name {name!r}) answered at {t:.3f} but is not listed ({ctx})",
                          sig="missing-spa:name-with-separator" if "|" in name else "missing-spa")
    slack = WAIT + 2 * ITER + 0.02
    if T_ret > S + timeout + slack:
        world.violate(PROP, "overran-timeout", f"{label} discovery returned {T_ret - S:.3f}s after start, timeout {timeout}s ({ctx})")
    # early return on the requested spa: the identifier matched (str or bytes), or a static address was given and anything answered
    found_at: Optional[float] = None
    if addr_filter is not None and first:
        found_at = min(t for t, _ in first.values())
    if want_b is not None and want_b in first:
        found_at = first[want_b][0] if found_at is None else min(found_at, first[want_b][0])
    specific = addr_filter is not None or want_b is not None
    if found_at is not None:
        if T_ret > max(found_at, S) + slack:
            world.violate(PROP, "late-return-found", f"{label} the requested spa answered at {found_at:.3f} but discovery returned at {T_ret:.3f} ({ctx})")
        res.probe("returned_on_requested_spa")
    elif first:
        t0 = min(t for t, _ in first.values())
        lim = max(S + initial, t0) + slack
        if T_ret > lim:
            world.violate(PROP, "late-return-any", f"{label} a spa had answered by {t0:.3f}, initial wait ends {S + initial:.3f}, but discovery returned at {T_ret:.3f} ({ctx})")
        if listed and T_ret < S + initial - 1e-6:
            world.violate(PROP, "early-return", f"{label} returned after {T_ret - S:.3f}s although the requested spa had not answered and the initial "
                          f"wait is {initial}s ({ctx})")
    elif T_ret < S + timeout - 1e-6:
        world.violate(PROP, "early-return", f"{label} nothing had answered but discovery returned after {T_ret - S:.3f}s, timeout {timeout}s ({ctx})")
    if not closed_on_return:
        world.violate(PROP, "endpoint-left-open", f"{label} start_discovery(True) returned without closing its socket ({ctx})")
    if left:
        world.violate(PROP, "helper-task-left", f"{label} threads still alive 1.5s after complete(): {left} ({ctx})")
    if any("|" in name for _, _, name in everyone):
        res.probe("name_with_separator")
    if len(arrivals) > len(first):
        res.probe("duplicate_replies")
    if not listed:
        res.probe("nothing_listed")
    res.probe("blocking_locator")
    res.nontrivial = len(arrivals) > 0 or not everyone
    res.shape = "T" + format(mix(0, repr((f, len(listed), len(arrivals), round(T_ret - S, 1)))), "x")
    res.sample = {"world": "T", "profile": cfg["profile"], "filter": f, "listed": [d.identifier_as_string for d in listed], "returned_after": round(T_ret - S, 3),
                  "specific": specific}


def run_case(case, replay=None, keep_log=False) -> RunResult:
    return WorldT(case, replay, keep_log=keep_log).run(scenario)
