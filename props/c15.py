"""C15 — discovery lists each spa once, honours the filter, and terminates on time."""

from __future__ import annotations

import asyncio
import random
from typing import Any, Dict, List, Optional, Tuple

from sim.client import SPA_ID, SPA_NAME, library_tasks
from sim.core import HarnessError, RunResult, mix
from sim.net import BROADCAST, SPA_IP, SPA_PORT
from sim.peers import SpaPeer
from sim.worlda import WorldA

PROP = "C15"
LEVEL = "exploration"
P = 0.1
PROFILES = ["clean", "multi", "late", "lossy", "stall", "names", "none"]
NAMES = ["Spa", "My Spa", "Spa du Châlet", "Ünïcödé ÿ", "A|B", "|lead", "trail|", "a|b|c", "Bad|Name Spa", "x" * 40, "  ", "Udp Test Spa", "", "",      # (a spa that was never given a name answers with an empty one)
         # every latin-1 code point is a legal name byte, also the C1 range 0x80-0x9f that other single-byte code pages map differently
         "Spa \x80 \x85", "\x81\x8d\x8f\x90\x9d", "C1 \x9f end", "\xa0\xff"]


def gen_case(seed: int, tier: str, index: int) -> Dict[str, Any]:
    if index % 40 == 39:
        from props import c15_t

        return c15_t.gen_case(seed, tier, index // 40, _gen_case_a)
    return _gen_case_a(seed, tier, index)


def _gen_case_a(seed: int, tier: str, index: int) -> Dict[str, Any]:
    rng = random.Random(mix(seed, "c15.case"))
    profile = PROFILES[index % len(PROFILES)] if index < 3 * len(PROFILES) else rng.choice(PROFILES)
    initial = rng.choice([1, 2, 4])
    timeout = rng.choice([t for t in (2, 4, 6, 10) if t >= initial])
    tables = {"idle": {"DISCOVERY_INITIAL_TIMEOUT_IN_SECONDS": initial, "DISCOVERY_TIMEOUT_IN_SECONDS": timeout},
              "active": {"DISCOVERY_INITIAL_TIMEOUT_IN_SECONDS": initial, "DISCOVERY_TIMEOUT_IN_SECONDS": timeout}}
    shipped = rng.random() < 0.15
    if shipped:
        # the shipped timing tables, untouched (both say: initial wait 4 s, discovery timeout 10 s), in the idle or in the active mode
        # (the mode is process-wide: a discovery runs in active mode when a pump of another / the previous connection is on)
        initial, timeout, tables = 4, 10, None
    net: Dict[str, Any] = {"lat_min": 0.001, "lat_max": 0.01}
    loop_cfg: Dict[str, Any] = {"cost_small_p": 0.2, "cost_small_max": 0.004}
    if rng.random() < 0.25:
        loop_cfg.update(wall_jump_p=0.01, wall_jump_max=rng.choice([2.0, 3600.0]))      # the wall clock steps; monotonic time does not
    nresp = rng.choice([0, 1, 1, 2, 3, 4, 6]) if profile != "none" else rng.choice([0, 0, 1])
    if profile == "lossy":
        net["loss"] = rng.choice([0.2, 0.5, 0.8])
        # ... and some of the discovery's own sendto() calls fail (ENETUNREACH while the network comes up): asyncio reports that through
        # error_received() and the endpoint stays usable -- to the discovery it is one more lost broadcast
        net["send_error_p"] = random.Random(mix(seed, "c15.senderr")).choice([0.0, 0.2, 0.5])
    if profile == "stall":
        loop_cfg.update(cost_stall_p=0.02, cost_stall_min=0.02, cost_stall_max=rng.choice([0.2, 0.6, 1.5]))
    use_real = rng.random() < 0.5 and nresp > 0
    responders = []
    for i in range(nresp):
        ident = f"SPA{i:02d}:{rng.randrange(256):02x}:{rng.randrange(256):02x}:aa:bb:cc"
        if profile == "names" or rng.random() < 0.3:
            name = rng.choice(NAMES)
        else:
            name = f"Spa {i}"
        per_bcast = []
        for b in range(timeout + 3):
            if profile == "none":
                mult = 0
            elif profile == "multi":
                mult = rng.choice([1, 2, 3, 4])
            else:
                mult = rng.choice([1, 1, 1, 0, 2])
            delays = []
            for _ in range(mult):
                if profile == "late":
                    delays.append(round(rng.choice([0.01, 0.5, initial - 0.05, initial + 0.05, timeout - 0.2, timeout + 0.5, rng.uniform(0, timeout + 2)]), 4))
                else:
                    delays.append(round(rng.choice([0.002, 0.02, 0.05, 0.3, rng.uniform(0, 1.5)]), 4))
            per_bcast.append(delays)
        responders.append({"ip": f"10.0.0.{20 + i}", "ident": ident, "name": name, "replies": per_bcast})
        if rng.random() < 0.25:
            # the reply's UDP source port is not the well-known one (a spa behind a port-forward, a simulator on another port): the
            # address of a spa is where its reply came from
            responders[-1]["reply_port"] = rng.choice([10023, 40022, 1])
    filt = rng.choice(["none", "none", "ident", "ident_absent", "address", "address+ident", "address_wrong_ident", "address_nobody",
                       "empty_strings", "empty_ident", "empty_address"])
    more = []
    if rng.random() < 0.4:
        for _ in range(rng.choice([1, 1, 2])):
            more.append({"filter": rng.choice(["none", "ident", "address", "address+ident", "ident_absent", "empty_strings"]), "pick": rng.randrange(100),
                         "gap": rng.choice([0.0, 0.3, 2.0])})
        for spec in responders:
            spec["replies"] = spec["replies"] * (1 + len(more)) + [[0.01]] * 4
    cfg = {"profile": profile, "net": net, "loop": loop_cfg, "tables": tables, "initial": initial, "timeout": timeout,
           "use_real": use_real, "filter": filt, "pick": rng.randrange(100), "more_rounds": more,
           "active_mode": rng.random() < (0.6 if shipped else 0.2),
           # the client's event handler may really suspend (it is awaited from inside the hello consumer task)
           "handler_suspend_p": rng.choice([0.0, 0.0, 0.5, 1.0]), "handler_suspend_max": rng.choice([0.05, 0.3, 1.5]),
           "other_tasks": rng.choice([[], [], [["done"]], [["done", "live"]], [["done", "done", "done"], ["live", "done"]], [["live"], ["done"]]])}
    return {"property": PROP, "world": "A", "seed": seed, "cfg": cfg, "plan": responders}


class HelloResponder:
    def __init__(self, world: WorldA, spec: Dict[str, Any]):
        from geckolib.driver import GeckoHelloProtocolHandler

        self.world = world
        self.spec = spec
        self.addr = (spec["ip"], SPA_PORT)
        self.reply_addr = (spec["ip"], spec.get("reply_port", SPA_PORT))
        self.ident = spec["ident"].encode("latin1")
        self.name = spec["name"]
        # the reply is built here, independently of the library's encoder: <HELLO>identifier|name</HELLO>, name in latin-1
        self.payload = b"<HELLO>" + self.ident + b"|" + self.name.encode("latin-1") + b"</HELLO>"
        self.n = 0
        world.net.bind(self.addr, self)

    def deliver(self, data: bytes, src, rec) -> None:
        if data != b"<HELLO>1</HELLO>":
            return
        k = self.n
        self.n += 1
        replies = self.spec["replies"]
        if k >= len(replies):
            return
        for d in replies[k]:
            self.world.loop.call_later(d, self.world.net.send, self.reply_addr, src, self.payload)

    def stop(self) -> None:
        self.world.net.unbind(self.addr)


async def scenario(world: WorldA) -> None:
    from geckolib import GeckoSpaEvent
    from geckolib.async_locator import GeckoAsyncLocator
    from geckolib.async_tasks import AsyncTasks

    cfg = world.cfg
    res = world.result
    res.faultfree = cfg["profile"] in ("clean", "multi", "names", "none")
    responders: List[Any] = []
    specs = world.case["plan"]
    for spec in specs:
        r = HelloResponder(world, spec)
        responders.append(r)
        world.peers.append(r)
    everyone: List[Tuple[str, bytes, str]] = [(r.addr[0], r.ident, r.name) for r in responders]
    if cfg["use_real"]:
        peer = SpaPeer(world.loop, world.net, None, ip=SPA_IP, name=SPA_NAME)
        world.peers.append(peer)
        everyone.append((SPA_IP, SPA_ID.encode(), SPA_NAME))
    rounds = [{"filter": cfg["filter"], "pick": cfg["pick"], "gap": 0.0}] + list(cfg.get("more_rounds", []))
    if cfg.get("active_mode"):
        from geckolib.config import config_sleep, set_config_mode

        # (the shared change future exists once something has slept on it, as in a running client)
        sl = asyncio.ensure_future(config_sleep(0.001))
        await asyncio.sleep(0)
        set_config_mode(True)
        await asyncio.sleep(0.01)
        sl.cancel()
        res.probe("discovery_in_active_mode" + ("_shipped_tables" if cfg.get("tables") is None else ""))
    taskman = None
    for ri, rnd in enumerate(rounds):
        f, pick = rnd["filter"], rnd["pick"]
        if rnd["gap"]:
            await asyncio.sleep(rnd["gap"])
        if ri > 0:
            res.probe("second_discovery_in_one_process")
        world.loop.stalls_on = True
        # filter
        target = everyone[pick % len(everyone)] if everyone else None
        kw: Dict[str, Optional[str]] = {}
        if f in ("ident", "address+ident") and target:
            kw["spa_identifier"] = target[1].decode("latin1")
        if f in ("ident_absent", "address_wrong_ident"):
            kw["spa_identifier"] = "SPA99:99:99:99:99:99"
        if f in ("address", "address+ident", "address_wrong_ident") and target:
            kw["spa_address"] = target[0]
        if f == "address_nobody":
            kw["spa_address"] = "10.0.0.250"
        # an empty string means "not configured" (the locator itself normalises "" to None): behaves as no filter
        if f in ("empty_strings", "empty_ident"):
            kw["spa_identifier"] = ""
        if f in ("empty_strings", "empty_address"):
            kw["spa_address"] = ""
        events: List[Any] = []
        susp = {"total": 0.0}
        s_susp = world.choices.stream("c15.handler")

        async def on_event(event, **kwargs):
            events.append((world.now(), event, kwargs))
            if cfg.get("handler_suspend_p") and event == GeckoSpaEvent.LOCATING_DISCOVERED_SPA and s_susp.chance(cfg["handler_suspend_p"]):
                dt = s_susp.uniform(0.0, cfg["handler_suspend_max"])
                susp["total"] += dt
                res.fault("client_handler_suspend")
                await asyncio.sleep(dt)

        # the locator shares its task manager with the rest of the client (the spa manager *is* the task manager): other tasks, some of
        # them already finished and not yet tidied, are registered before and between discoveries
        if taskman is None:
            taskman = AsyncTasks()
        other = cfg.get("other_tasks") or []
        for j, kind in enumerate(other[ri % len(other)] if other else []):
            async def _short():
                return None

            async def _long():
                await asyncio.sleep(1e6)
            taskman.add_task(_short() if kind == "done" else _long(), f"Other task {ri}.{j}", "SPA")
        if other:
            await asyncio.sleep(0)
            await asyncio.sleep(0)
            res.probe("task_manager_shared_with_other_tasks")
        locator = GeckoAsyncLocator(taskman, on_event, **kw)
        n_ep = len(world.loop.transports)
        S = world.now()
        stall0 = world.clock.stall_total_ns
        # a discovery that never returns is a verdict (overran its timeout), not a run that hits the simulator's caps
        dtask = asyncio.ensure_future(locator.discover())
        dtask.set_name("HARNESS:discover")
        done, _ = await asyncio.wait([dtask], timeout=3 * cfg["timeout"] + 30.0)
        if not done:
            dtask.cancel()
            world.violate(PROP, "overran-timeout", f"discover() had not returned {world.now() - S:.1f}s after it was called, discovery timeout "
                          f"{cfg['timeout']}s (round={ri} filter={f} kw={kw})", sig="overran-timeout:never-returned")
        try:
            dtask.result()
        except asyncio.CancelledError:
            raise
        except Exception as e:
            world.violate(PROP, "discover-raised", f"discover() raised {type(e).__name__}: {e}")
        T_ret = world.now()
        # time the hello consumer spent suspended in the client's handler delays everything behind it, like a stall
        stall = (world.clock.stall_total_ns - stall0) / 1e9 + susp["total"]
        listed = list(locator.spas or [])
        tr = world.loop.transports[n_ep] if len(world.loop.transports) > n_ep else None
        if tr is None:
            raise HarnessError("discover() opened no endpoint")
        closed_on_return = tr.close_called > 0
        for _ in range(3):
            await asyncio.sleep(0)          # cancelled helper tasks need a turn of the loop to unwind
        loc_tasks = [t.get_name() for t in library_tasks() if t.get_name().startswith("LOC:")]
        world.loop.stalls_on = False

        # ---- oracle -----------------------------------------------------------------------------------------
        initial, timeout = cfg["initial"], cfg["timeout"]
        ident_filter = kw.get("spa_identifier") or None
        addr_filter = kw.get("spa_address") or None
        has_filter = ident_filter is not None or addr_filter is not None

        def passes(ip: str, ident: bytes) -> bool:
            if addr_filter is not None and ip != addr_filter:
                return False      # a static address means only that host is asked
            if ident_filter is not None and ident.decode("latin1") != ident_filter:
                return False
            return True

        # arrivals of hello replies at the locator's endpoint, in order
        arrivals: List[Tuple[float, Tuple[str, int], bytes]] = []
        for r in world.net.history:
            if r.dst == tr.local and r.verb == "HELLO":
                for es, t in r.deliveries:
                    arrivals.append((t, r.src, r.data))
        arrivals.sort(key=lambda x: x[0])
        # when could the hello consumer have handled each one (it takes one per polling interval)
        h_prev = S
        handled_by: List[float] = []
        for (t, src, data) in arrivals:
            h = max(t, h_prev) + P
            handled_by.append(h)
            h_prev = h
        first_by_ident: Dict[bytes, Tuple[float, float, Tuple[str, int]]] = {}
        who = {ip: (ident, name) for ip, ident, name in everyone}
        for (t, src, data), h in zip(arrivals, handled_by):
            ident = who[src[0]][0]
            if ident not in first_by_ident:
                first_by_ident[ident] = (t, h, src)
        ctx = f"round={ri} filter={f} kw={kw} initial={initial} timeout={timeout} S={S:.3f} T_ret={T_ret:.3f} stall={stall:.3f}"

        listed_ids = [d.identifier for d in listed]
        if len(set(listed_ids)) != len(listed_ids):
            world.violate(PROP, "listed-twice", f"a spa is listed more than once: {listed_ids} ({ctx})")
        for d in listed:
            src = next(((ip, ident, name) for ip, ident, name in everyone if ident == d.identifier), None)
            if src is None:
                world.violate(PROP, "phantom-spa", f"listed identifier {d.identifier!r} belongs to no responder ({ctx})")
            ip, ident, name = src
            if not passes(ip, ident):
                world.violate(PROP, "filter-ignored", f"listed {ident!r} at {ip}, which the filter excludes ({ctx})")
            if ident not in first_by_ident or first_by_ident[ident][0] > T_ret:
                world.violate(PROP, "phantom-spa", f"listed {ident!r} but no reply of it had arrived by the time discovery returned ({ctx})")
            if d.name != name:
                world.violate(PROP, "name-mangled", f"spa {ident!r} listed with name {d.name!r}, it sent {name!r} ({ctx})")
            if name == "":
                res.probe("spa_without_a_name_listed")
            came_from = tuple(first_by_ident[ident][2])
            if came_from[1] != SPA_PORT:
                res.probe("reply_from_another_port")
            if tuple(d.destination) != came_from:
                world.violate(PROP, "address-mangled", f"spa {ident!r} listed at {d.destination}, it answered from {came_from} ({ctx})")
        must = [ident for ident, (t, h, src) in first_by_ident.items()
                if passes(src[0], ident) and h + P + stall <= T_ret]
        for ident in must:
            if ident not in listed_ids:
                t, h, src = first_by_ident[ident]
                name = who[src[0]][1]
                sig = "missing-spa:name-with-separator" if "|" in name else "missing-spa"
                world.violate(PROP, "missing-spa", f"spa {ident!r} (name {name!r}) answered at {t:.3f} (handled by {h:.3f}) but is "
                              f"not listed ({ctx})", sig=sig)
        # ---- it keeps asking: one broadcast (attempt) every 1.1 s for as long as the run lasts ---------------------------------
        asked = [r for r in world.net.history if r.src == tr.local and r.data == b"<HELLO>1</HELLO>" and S - 1e-6 <= r.t <= T_ret + 1e-6]
        if any(r.fate == "send_error" for r in asked):
            res.probe("a_broadcast_of_the_discovery_failed_in_sendto")
        want_asked = int((T_ret - S - stall) / 1.1)
        n_asked = int(getattr(tr, "sent", len(asked)))       # sendto() calls on the discovery's endpoint (a broadcast nobody hears leaves no record)
        if n_asked < want_asked:
            world.violate(PROP, "missing-spa", f"the discovery ran for {T_ret - S:.2f}s (stall {stall:.2f}s) but asked only {n_asked} time(s) "
                          f"(a broadcast every 1.1 s: at least {want_asked}); send errors among them: {sum(1 for r in asked if r.fate == 'send_error')} ({ctx})",
                          sig="missing-spa:discovery-stopped-asking")
        # ---- termination ------------------------------------------------------------------------------------
        if T_ret > S + timeout + 2 * P + stall:
            world.violate(PROP, "overran-timeout", f"discovery returned {T_ret - S:.3f}s after start, timeout {timeout}s ({ctx})")
        matching = [(t, h) for ident, (t, h, src) in first_by_ident.items() if passes(src[0], ident)]
        if has_filter and matching:
            h0 = min(h for t, h in matching)
            if h0 + 2 * P + stall < T_ret and T_ret > S + 0:
                # the requested spa had answered and been handled, yet discovery kept waiting
                if T_ret - (h0 + 2 * P + stall) > 1e-6:
                    world.violate(PROP, "late-return-found", f"requested spa was handled by {h0:.3f} but discovery returned at {T_ret:.3f} ({ctx})")
            res.probe("returned_on_requested_spa")
        elif not has_filter and matching:
            h0 = min(h for t, h in matching)
            lim = max(S + initial, h0) + 2 * P + stall
            if T_ret > lim + 1e-6:
                world.violate(PROP, "late-return-any", f"a spa had answered by {h0:.3f}, initial wait ends {S + initial:.3f}, but discovery returned at {T_ret:.3f} ({ctx})")
            if listed and T_ret < S + initial - 1e-6:
                world.violate(PROP, "early-return", f"discovery without a filter returned after {T_ret - S:.3f}s, before the initial wait of {initial}s ({ctx})")
        if not listed and not must and T_ret < S + timeout - 1e-6 and not matching:
            world.violate(PROP, "early-return", f"nothing had answered but discovery returned after {T_ret - S:.3f}s, timeout {timeout}s ({ctx})")
        # ---- cleanup -----------------------------------------------------------------------------------------
        if not closed_on_return:
            world.violate(PROP, "endpoint-left-open", f"discover() returned without closing its endpoint ({ctx})")
        if loc_tasks:
            world.violate(PROP, "helper-task-left", f"LOC tasks still alive after return: {loc_tasks} ({ctx})")
        n_disc = sum(1 for _, e, _ in events if e == GeckoSpaEvent.LOCATING_DISCOVERED_SPA)
        if n_disc != len(listed):
            world.violate(PROP, "event-count", f"{n_disc} discovered events for {len(listed)} listed spas ({ctx})")
        # probes
        if any("|" in name for _, _, name in everyone):
            res.probe("name_with_separator")
        if len(arrivals) > len(first_by_ident):
            res.probe("duplicate_replies")
        if any(t > T_ret for t, _, _ in arrivals) or any(rec.dst == tr.local and rec.verb == "HELLO" and not rec.deliveries and rec.fate == "ok"
                                                          for rec in world.net.history):
            res.probe("reply_after_return")
        if not listed:
            res.probe("nothing_listed")
        if len(listed) >= 3:
            res.probe("three_or_more_listed")
        res.nontrivial = len(arrivals) > 0 or not everyone
        res.shape = format(mix(0, repr((f, len(listed), len(arrivals), round(T_ret - S, 1)))), "x")
        res.sample = {"profile": cfg["profile"], "filter": f, "responders": [(s["ident"], s["name"]) for s in specs][:4],
                      "listed": [d.identifier_as_string for d in listed], "returned_after": round(T_ret - S, 3)}
    # let late replies reach the closed endpoint, cancel helper tasks
    await asyncio.sleep(1.0)
    if taskman is not None:
        for t in taskman._tasks:
            t.cancel()


def run_case(case: Dict[str, Any], replay: Optional[Dict[str, Any]] = None, keep_log: bool = False) -> RunResult:
    if case.get("world") == "T":
        from props import c15_t

        return c15_t.run_case(case, replay, keep_log)
    world = WorldA(case, replay, keep_log=keep_log)
    return world.run(scenario)


# ---------------------------------------------------------------------------------------------------
BUDGET = {"quick": 40, "thorough": 600}
RULE = ("Each run = one real GeckoAsyncLocator.discover() against 0-6 hello responders (optionally the real simulator among them) "
        "with drawn identifiers, names (ASCII, latin-1, names containing '|'), per-broadcast reply multiplicity 0-4 and latency "
        "(milliseconds to beyond the discovery timeout), loss, loop stalls, drawn initial-wait/timeout tables, and one of eight "
        "filter settings (none / identifier present or absent / address / both / address with wrong identifier / address of nobody). "
        "Non-trivial = at least one reply arrived, or there was nobody to answer; distinct = distinct event-log digest.")
SHAPE_MEASURE = "hash of (filter kind, number listed, number of reply arrivals, return time rounded to 0.1 s)"
COMPONENTS = {
    "real": ["GeckoAsyncLocator.discover/_async_on_discovered/_broadcast_loop", "GeckoHelloProtocolHandler (both directions)",
             "GeckoUdpProtocolHandler.consume", "AsyncTasks", "GeckoSimulator hello handler (when drawn)"],
    "stub": ["other spas -> harness hello responders using the repo's encoder", "sockets/clock/selector"],
}
ASSUMPTIONS = [
    "only hello replies reach the locator's endpoint (no junk: outside the quantifier)",
    "the hello consumer takes one queued reply per polling interval; 'answered by the time of return' allows that service time",
    "two spas never share an identifier",
]
PROBES = ["reply_from_another_port", "a_broadcast_of_the_discovery_failed_in_sendto", "spa_without_a_name_listed", "discovery_in_active_mode", "discovery_in_active_mode_shipped_tables", "blocking_locator", "identifier_given_as_bytes", "second_discovery_in_one_process", "name_with_separator", "duplicate_replies", "reply_after_return", "nothing_listed", "three_or_more_listed", "returned_on_requested_spa"]
N_QUICK = 60000


def jobs(tier: str, base_seed: int):
    if tier == "quick":
        for i in range(0, N_QUICK, 100):
            yield {"kind": "seeded", "first": i, "count": 100, "mandatory": True}
    else:
        i = 0
        while True:
            yield {"kind": "seeded", "first": i, "count": 100}
            i += 100


def job_cases(job, tier: str, base_seed: int):
    from sim.driver import run_seed

    for i in range(job["first"], job["first"] + job["count"]):
        c = gen_case(run_seed(PROP, base_seed, i), tier, i)
        c["subspace"] = "seeded:" + c["cfg"]["profile"] + ":" + c["cfg"]["filter"]
        yield c


def selftest_case(base_seed: int, tier: str, index: int):
    """Determinism self-test: every third index is a blocking-locator (World T) case."""
    from sim.driver import run_seed

    i = 40 * (index // 3) + 39 if index % 3 == 2 else index
    return gen_case(run_seed(PROP, base_seed, i), tier, i)
