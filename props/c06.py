"""C06 — request engine: bounded retries, one request in flight, every caller completes."""

from __future__ import annotations

import asyncio
import random
from typing import Any, Dict, List, Optional

from sim.client import REPLY_VERBS, REQUEST_VERBS, task_name
from sim.core import HarnessError, RunResult, mix
from sim.net import SPA_IP, SPA_PORT, inner_of
from sim.peers import snapshot_files
from sim.system import System, draw_tables, table_max
from sim.worlda import WorldA

PROP = "C06"
LEVEL = "exploration"
P_YIELD = 0.1
PROFILES = ["faultfree", "replyloss", "requestloss", "late", "dup", "silent", "blackout", "stall", "mixed"]
OPS = ["press", "set", "getwc", "setwc", "remind", "refresh", "ping", "press_sync", "set_sync"]


def gen_case(seed: int, tier: str, index: int) -> Dict[str, Any]:
    rng = random.Random(mix(seed, "c06.case"))
    profile = PROFILES[index % len(PROFILES)] if index < 3 * len(PROFILES) else rng.choice(PROFILES)
    tables = draw_tables(rng, fast=True)
    T = max(tables["active"]["PROTOCOL_TIMEOUT_IN_SECONDS"], tables["idle"]["PROTOCOL_TIMEOUT_IN_SECONDS"])
    net: Dict[str, Any] = {"lat_min": 0.001, "lat_max": 0.004}
    loop_cfg: Dict[str, Any] = {"cost_small_p": 0.1, "cost_small_max": 0.002}
    if rng.random() < 0.25:
        loop_cfg.update(wall_jump_p=0.003, wall_jump_max=rng.choice([5.0, 3600.0, 86400.0]))      # the wall clock steps; monotonic time does not
    dur = rng.choice([40, 80, 150]) if tier == "quick" else rng.choice([60, 150, 400])
    silent: List[Any] = []
    if profile == "replyloss":
        net["loss_s2c"] = rng.choice([0.1, 0.3, 0.5])
    elif profile == "requestloss":
        net["loss_c2s"] = rng.choice([0.1, 0.3, 0.5])
        net["send_error_p"] = rng.choice([0.0, 0.05, 0.2])       # sendto() failing: asyncio calls protocol.error_received()
    elif profile == "late":
        net.update(slow_p=rng.choice([0.1, 0.3]), slow_max=rng.choice([T * 0.9, T * 1.5, T * 3]), lat_max=0.05)
    elif profile == "dup":
        net.update(dup=rng.choice([0.2, 0.5]), dup_max=rng.choice([0.05, 1.0, T * 1.2]))
    elif profile == "silent":
        verb = rng.choice(["GeckoWatercareProtocolHandler", "GeckoRemindersProtocolHandler", "GeckoPackCommandProtocolHandler",
                           "GeckoPingProtocolHandler", "GeckoStatusBlockProtocolHandler"])
        t0 = rng.uniform(2, dur / 2)
        silent.append([t0, t0 + rng.uniform(5, dur / 2), verb])
    elif profile == "blackout":
        t0 = rng.uniform(2, dur / 2)
        net["blackouts"] = [[t0, t0 + rng.choice([3, 8, 20, 45]), rng.choice(["both", "both", "c2s", "s2c"])]]
    elif profile == "stall":
        loop_cfg.update(cost_stall_p=0.003, cost_stall_min=0.05, cost_stall_max=rng.choice([0.5, 2.0, T * 1.5]))
        net["loss"] = rng.choice([0.0, 0.1])
    elif profile == "mixed":
        net.update(loss=rng.choice([0.05, 0.2]), dup=0.1, dup_max=1.0, slow_p=0.05, slow_max=T * 1.5, send_error_p=rng.choice([0.0, 0.03]))
        loop_cfg.update(cost_stall_p=0.001, cost_stall_min=0.05, cost_stall_max=1.0)
    nops = rng.randint(6, 30)
    plan = []
    t = 0.0
    for k in range(nops):
        if rng.random() < 0.5:
            t += rng.choice([0.0, 0.0, 0.001, 0.05])       # bursts: many callers wait on the lock together
        else:
            t += rng.uniform(0.2, dur / max(4, nops / 2))
        op = {"op": rng.choice(OPS), "t": round(min(t, dur), 4), "arg": rng.randrange(1 << 16)}
        if rng.random() < 0.12 and profile != "faultfree":
            # cancelling a caller in flight leaves its replies in the receive queue: it is a fault the harness injects,
            # so the fault-free configuration (which carries the must-succeed obligation) never does it
            op["cancel_after"] = round(rng.uniform(0.0, 3 * T), 3)
        plan.append(op)
    junk: List[Any] = []
    if profile in ("silent", "mixed", "replyloss") and rng.random() < 0.6:
        # stray datagrams at the connection's endpoint while requests go unanswered: framed packets that lack part of their structure,
        # empty frames, unknown verbs (nothing of this may complete a request)
        for _ in range(rng.randint(3, 25)):
            junk.append([round(rng.uniform(2.0, dur), 3), rng.randrange(8)])
        junk.sort()
    if random.Random(mix(seed, "c06.shipped")).random() < 0.15:
        # the shipped timing tables, untouched: here "the configured retry count" is what the table in force says when the call is made
        tables = None
    snaps = snapshot_files()
    cfg = {"profile": profile, "net": net, "loop": loop_cfg, "tables": tables, "duration": dur, "silent": silent, "junk": junk,
           "snapshot": snaps[rng.randrange(len(snaps))].split("/")[-1],
           "suspend_p": rng.choice([0.0, 0.0, 0.1]), "suspend_max": 0.5}
    if rng.random() < 0.3:
        from sim.system import draw_firmware

        cfg["firmware"] = draw_firmware(rng)
    return {"property": PROP, "world": "A", "seed": seed, "cfg": cfg, "plan": plan}


class GateOracle:
    """Independent view of 'connected' and 'answering pings' for the connection an op is invoked on."""

    def __init__(self, world, sysm: System):
        self.world = world
        self.sys = sysm
        self.connected: Dict[int, bool] = {}          # id(spa) -> handshake completed and not disconnected
        self.last_ping: Dict[str, float] = {}         # endpoint label -> last APING reply delivery / first ping tx
        world.net.taps.append(self._tap)
        sysm.man.on_delivery.append(self._on_event)

    def _tap(self, kind: str, rec) -> None:
        # the ping loop starts its window when it starts: first ping transmission of a connection
        if rec.verb == "APING" and kind == "tx" and rec.src[0] != SPA_IP:
            for label, tr in self.sys.transports.items():
                if tr.local == rec.src and label not in self.last_ping:
                    self.last_ping[label] = self.world.now()

    def refresh(self) -> None:
        """Last time the ping loop *took* a ping reply from the receive queue (a reply may sit behind a backlog of
        unclaimed datagrams for seconds before the ping loop sees it; the library's window starts when it does)."""
        for label, q in self.sys.queues.items():
            for it in reversed(q.items[-400:]):
                if it["item"][0].startswith(b"APING") and it["pops"] and it["pops"][0]["by"] == "SPA:Ping loop":
                    t = it["pops"][0]["t"]
                    if t > self.last_ping.get(label, -1.0):
                        self.last_ping[label] = t
                    break

    def _on_event(self, d) -> None:
        name = d["event"].name
        spa = self.sys.spa
        if spa is None:
            return
        if name == "CONNECTION_SPA_COMPLETE":
            self.connected[id(spa)] = True
        elif name == "RUNNING_SPA_DISCONNECTED":
            self.connected[id(spa)] = False

    def must_be_silent(self, spa) -> Optional[str]:
        """Reason why an op invoked now on `spa` must not put anything on the wire, or None."""
        from geckolib.config import GeckoConfig

        if not self.connected.get(id(spa), False):
            return "not-connected"
        self.refresh()
        label = getattr(spa, "_verif_label", None)
        L = self.last_ping.get(label)
        now = self.world.now()
        if L is None:
            return None
        F = GeckoConfig.PING_FREQUENCY_IN_SECONDS
        margin = 0.3 + self.world.clock.stall_between(L, now)
        if now - L >= 2 * F + margin:
            return "ping-silent"
        return None


async def scenario(world: WorldA) -> None:
    from geckolib import GeckoSpaState
    from geckolib.driver import GeckoPingProtocolHandler, GeckoStatusBlockProtocolHandler

    cfg = world.cfg
    res = world.result
    res.faultfree = cfg["profile"] == "faultfree"
    world.net.healed = True
    world.loop.stalls_on = False
    sysm = System(world)
    gates = GateOracle(world, sysm)
    model = sysm.peer.sim
    ops: List[Dict[str, Any]] = []
    tables = cfg["tables"] or {}
    Tmax = table_max(tables, "PROTOCOL_TIMEOUT_IN_SECONDS")
    Pmax = table_max(tables, "PAUSE_BETWEEN_RETRIES_IN_SECONDS")

    async def run_op(k: int, op: Dict[str, Any]) -> None:
        spa = sysm.spa
        rec = {"k": k, "op": op["op"], "task": task_name(), "invoke_t": world.now(), "invoke_seq": world.log.add("op-invoke", k, op["op"]),
               "spa": spa, "must_silent": None, "outcome": None, "net_mark": len(world.net.history)}
        ops.append(rec)
        if spa is None:
            rec["outcome"] = "no-spa"
            res.probe("op_without_spa")
            return
        rec["must_silent"] = gates.must_be_silent(spa) if op["op"] in ("press", "set", "getwc", "setwc", "remind") else None
        if rec["must_silent"]:
            res.probe("gate_closed:" + op["op"] + ":" + rec["must_silent"])
        protocol = getattr(spa, "_protocol", None)
        try:
            kind = op["op"]
            if kind == "press":
                rec["value"] = await spa.async_press(op["arg"] % 24)
            elif kind == "set":
                await spa.struct.async_set_value(600 + op["arg"] % 20, 1, op["arg"] % 256)
            elif kind == "press_sync":
                # the blocking-style entry points: they return at once, the library carries the command out in a task of its own -- every
                # one of them is a caller of the connection like any other
                n0 = len(sysm.all_tasks)
                spa.press(op["arg"] % 24)
                rec["sync"] = "SPA:Button press task"
                rec["task_created"] = len(sysm.all_tasks) - n0
                res.probe("caller_through_the_blocking_style_api")
            elif kind == "set_sync":
                n0 = len(sysm.all_tasks)
                spa.struct.set_value(600 + op["arg"] % 20, 1, op["arg"] % 256)
                rec["sync"] = "SPA:Set value task"
                rec["task_created"] = len(sysm.all_tasks) - n0
                res.probe("caller_through_the_blocking_style_api")
            elif kind == "getwc":
                rec["value"] = await spa.async_get_watercare()
            elif kind == "setwc":
                await spa.async_set_watercare(op["arg"] % 5)
            elif kind == "remind":
                rec["value"] = await spa.async_get_reminders()
            elif kind == "refresh":
                if protocol is None:
                    rec["outcome"] = "no-protocol"
                    return
                start = op["arg"] % 900
                rec["value"] = await spa.struct.get(
                    protocol, lambda: GeckoStatusBlockProtocolHandler.request(
                        protocol.get_and_increment_sequence_counter(False), start, 1 + op["arg"] % 120, parms=spa.sendparms))
            elif kind == "ping":
                if protocol is None:
                    rec["outcome"] = "no-protocol"
                    return
                rec["value"] = await protocol.get(lambda: GeckoPingProtocolHandler.request(parms=spa.sendparms), None, 1 + op["arg"] % 3)
            rec["outcome"] = "returned"
        except asyncio.CancelledError:
            rec["outcome"] = "cancelled"
            raise
        except Exception as e:       # e.g. the connection was torn down while this caller waited
            rec["outcome"] = "raised:" + type(e).__name__
            res.probe("op_raised")
        finally:
            rec["return_t"] = world.now()
            rec["return_seq"] = world.log.add("op-return", k, str(rec["outcome"]))
            rec["net_end"] = len(world.net.history)

    async with sysm.man as man:
        try:
            await sysm.wait_connected()
        except HarnessError:
            # the healthy-network setup failed: if the history already shows why, that is the verdict
            for c in sysm.calls.calls:
                if c["outcome"] is None:
                    c["outcome"], c["return_seq"], c["return_t"], c["stall1"] = "pending", world.log.seq + 1, world.now(), world.clock.stall_total_ns
            check_history(world, sysm, ops, world.now(), 0.0, setup_failed=True)
            raise
        base = world.now()
        # shift the scripted windows to the fault phase
        world.net.blackouts = [(base + a, base + b, d) for (a, b, d) in world.net.blackouts]
        world.net.healed = res.faultfree
        world.loop.stalls_on = True
        tasks: List[asyncio.Task] = []

        async def silencer():
            for (a, b, verb) in cfg.get("silent", []):
                await asyncio.sleep(max(0.0, base + a - world.now()))
                model.silent_verbs.add(verb)
                res.fault("spa_silent_for_verb")
                await asyncio.sleep(b - a)
                model.silent_verbs.discard(verb)
        sil = asyncio.create_task(silencer(), name="HARNESS:silencer")

        async def junker():
            forms = [b"<PACKT></PACKT>", b"<PACKT><SRCCN>SPA01:02:03:04:05:06</SRCCN></PACKT>", b"<PACKT><DATAS>PACKS</DATAS></PACKT>",
                     b"<PACKT><SRCCN>SPA01:02:03:04:05:06</SRCCN><DESCN>IOSverif-0001</DESCN></PACKT>", b"<PACKT>PACKS</PACKT>", b"XQZZY\x01",
                     b"<PACKT><SRCCN></SRCCN><DESCN></DESCN></PACKT>", b"<PACKT>\n</PACKT>"]
            for (t, form) in cfg.get("junk", []):
                await asyncio.sleep(max(0.0, base + t - world.now()))
                cur = sysm.spa
                tr = sysm.client_endpoint_of(cur) if cur is not None else None
                if tr is None or tr.is_closing():
                    continue
                world.net.inject((sysm.peer.ip, SPA_PORT), tr.local, forms[form % len(forms)], who="junk")
                res.fault("junk_datagram")
        jk = asyncio.create_task(junker(), name="HARNESS:junker")

        async def canceller(t: asyncio.Task, delay: float):
            await asyncio.sleep(delay)
            if not t.done():
                t.cancel()
                res.probe("caller_cancelled")

        for k, op in enumerate(world.case["plan"]):
            wait = base + op["t"] - world.now()
            if wait > 0:
                await asyncio.sleep(wait)
            t = asyncio.create_task(run_op(k, op), name=f"HARNESS:op-{k}")
            tasks.append(t)
            if "cancel_after" in op:
                tasks.append(asyncio.create_task(canceller(t, op["cancel_after"]), name=f"HARNESS:cancel-{k}"))
        rest = base + cfg["duration"] - world.now()
        if rest > 0:
            await asyncio.sleep(rest)
        # heal and let every caller finish
        world.net.healed = True
        world.net.blackouts = []
        model.silent_verbs.clear()
        sil.cancel()
        jk.cancel()
        world.loop.stalls_on = False
        heal_t = world.now()
        R = 10
        per_call = R * (Tmax + Pmax + 2 * P_YIELD) + 5.0
        pending = [t for t in tasks if not t.done()]
        drain_cap = (len(pending) + 6) * per_call
        if pending:
            done, still = await asyncio.wait(pending, timeout=drain_cap)
            if still:
                names = sorted(t.get_name() for t in still)
                world.violate(PROP, "caller-never-completes", f"{len(still)} caller(s) still pending {drain_cap:.0f}s after the "
                              f"network healed: {names[:4]}", detail={"names": names})
        for t in tasks:
            if t.done() and not t.cancelled() and t.exception() is not None:
                raise HarnessError(f"op task failed: {t.exception()!r}")
        # let library calls in flight finish too (bounded), so that every recorded call has an outcome
        t0 = world.now()
        while any(c["outcome"] is None for c in sysm.calls.calls) and world.now() - t0 < 8 * per_call:
            await asyncio.sleep(0.5)
        check_history(world, sysm, ops, heal_t, per_call)
    res.sample = {"profile": cfg["profile"], "ops": [(o["op"], o["t"]) for o in world.case["plan"][:8]],
                  "calls": len(sysm.calls.calls), "faults": dict(res.faults)}


def check_history(world: WorldA, sysm: System, ops, heal_t: float, per_call: float, setup_failed: bool = False) -> None:
    res = world.result
    cfg = world.cfg
    hist = world.net.history
    tables = cfg["tables"] or {}
    Tmax = table_max(tables, "PROTOCOL_TIMEOUT_IN_SECONDS")
    Pmax = table_max(tables, "PAUSE_BETWEEN_RETRIES_IN_SECONDS")
    # request datagrams per client endpoint
    by_src: Dict[Any, List[Any]] = {}
    for r in hist:
        if r.src[0] != SPA_IP and r.verb in REQUEST_VERBS:
            by_src.setdefault(r.src, []).append(r)
    local_of = {label: tr.local for label, tr in sysm.transports.items()}
    # conservation on the receive queue: what the packet consumer puts back is the content of the packet it has just taken off
    requeue_without_arrival: Dict[Any, List[Any]] = {}
    for label, q in sysm.queues.items():
        last_packet_inner: Dict[str, Optional[bytes]] = {}
        events = []
        for it in q.items:
            events.append((it["put_seq"], "put", it))
            for pp in it["pops"]:
                events.append((pp["seq"], "pop", it, pp))
        events.sort(key=lambda e: e[0])
        for e in events:
            if e[1] == "pop" and e[2]["item"][0].startswith(b"<PACKT>"):
                last_packet_inner[e[3]["by"]] = inner_of(e[2]["item"][0])
            elif e[1] == "put" and e[2]["put_by"] not in ("loop",) and not str(e[2]["put_by"]).startswith("HARNESS"):
                inner = last_packet_inner.get(e[2]["put_by"])
                if inner is None or inner != e[2]["item"][0]:
                    requeue_without_arrival.setdefault(label, []).append(e[2])
                    res.probe("requeue_differs_from_unwrapped_packet")
                last_packet_inner[e[2]["put_by"]] = None        # one re-queue per packet
    calls = sysm.calls.calls
    shape = []
    overlap_names: set = set()
    for c in calls:
        if c["outcome"] is None and not setup_failed:
            # a library task cancelled by teardown inside the wrapper is recorded as cancelled; None means
            # the call neither returned nor was cancelled -> it is stuck
            world.violate(PROP, "call-never-returns", f"call #{c['id']} {c['kind']} by {c['task']} invoked at "
                          f"{c['invoke_t']:.2f} never returned")
        if c["task"] in ("SPA:Button press task", "SPA:Set value task") and any(
                o is not c and o["task"] == c["task"] and o["invoke_seq"] < (c.get("return_seq") or 10 ** 12) and (o.get("return_seq") or 10 ** 12) > c["invoke_seq"]
                for o in calls):
            # two library tasks of the same name were in flight together: their datagrams cannot be told apart by the sender's name
            res.probe("same_named_library_tasks_overlap")
            overlap_names.add(c["task"])
            continue
        sends = [r for r in hist[c["net_mark"]:c.get("net_end", len(hist))]
                 if r.who == c["task"] and r.verb in REQUEST_VERBS and r.src[0] != SPA_IP
                 and c["invoke_seq"] < r.lseq < c["return_seq"]]
        c["sends"] = sends
        res.stats["calls"] = res.stats.get("calls", 0) + 1
        if not sends:
            continue
        ctx = f"call #{c['id']} {c['kind']}({sends[0].verb}) by {c['task']} at {c['invoke_t']:.2f}"
        # 1. bounded, freshly built, one attempt at a time
        if len(sends) > c["retries"]:
            world.violate(PROP, "too-many-attempts", f"{ctx}: {len(sends)} transmissions, retry count {c['retries']}")
        if len(c["built"]) < len(sends) or (c.get("open_at_end") and len(c["built"]) != len(sends)):
            world.violate(PROP, "attempt-not-fresh", f"{ctx}: {len(sends)} transmissions from {len(c['built'])} built requests")
        if len(c["built"]) > c["retries"]:
            world.violate(PROP, "too-many-attempts", f"{ctx}: {len(c['built'])} requests built, retry count {c['retries']}")
        if len({id(b[2]) for b in c["built"]}) != len(c["built"]):
            world.violate(PROP, "attempt-not-fresh", f"{ctx}: a request object was reused for a retry")
        if c["kind"] == "get":
            for a, b, built in zip(sends, sends[1:], c["built"]):
                T = built[1] or 0
                if b.t - a.t < T - 1e-6:
                    world.violate(PROP, "retry-before-timeout", f"{ctx}: retransmitted after {b.t - a.t:.3f}s, timeout {T}s")
                if a.verb != "APING" and inner_of(a.data)[5:6] == inner_of(b.data)[5:6]:
                    world.violate(PROP, "attempt-not-fresh", f"{ctx}: consecutive attempts carry the same sequence byte")
            if len(sends) >= 2:
                res.probe("retried_call")
            if c["outcome"] == "none":
                res.probe("retry_exhausted_call")
        # 3. bounded duration
        dur = c["return_t"] - sends[0].t
        stall = (c["stall1"] - c["stall0"]) / 1e9
        bound = c["retries"] * (Tmax + Pmax + 2 * P_YIELD) + 1.0
        if c["kind"] == "struct.get":
            bound = c["retries"] * (Tmax + 30 * 0.3) + 1.0     # up to 27 segments, each polled
        if c["outcome"] in ("ok", "none") and dur - stall > bound:
            world.violate(PROP, "call-too-slow", f"{ctx}: took {dur:.2f}s (stall {stall:.2f}s), bound {bound:.2f}s")
        # 2. a reply is returned only if one was delivered (came off the wire to this endpoint) and taken by this call
        if c["outcome"] == "ok" and requeue_without_arrival:
            label0 = next((lb for lb, loc in local_of.items() if loc == sends[0].src), None)
            for bad in requeue_without_arrival.get(label0, []):
                if any(p["by"] == c["task"] and c["invoke_seq"] < p["seq"] < c["return_seq"] for p in bad["pops"]):
                    world.violate(PROP, "reply-from-nowhere", f"{ctx}: returned success on {bad['item'][0][:12]!r}, which was put on the receive queue by "
                                  f"{bad['put_by']} at {bad['put_t']:.3f} although the packet it had just unwrapped did not contain it (a replay of earlier content)",
                                  sig="reply-from-nowhere:replayed-content")
        if c["outcome"] == "ok":
            label = next((lb for lb, loc in local_of.items() if loc == sends[0].src), None)
            q = sysm.queues.get(label)
            want = REPLY_VERBS[sends[0].verb]
            mine = []
            if q is not None:
                for it in q.items:
                    for p in it["pops"]:
                        if p["by"] == c["task"] and c["invoke_seq"] < p["seq"] < c["return_seq"]:
                            mine.append((it, p))
            good = [(it, p) for it, p in mine if any(it["item"][0].startswith(v.encode()) for v in want)]
            if not mine:
                world.violate(PROP, "reply-from-nowhere", f"{ctx}: returned a reply but took nothing from the receive queue")
            if not good:
                got = mine[-1][0]["item"][0][:5].decode("latin1")
                world.violate(PROP, "reply-wrong-verb", f"{ctx}: returned success on a {got} datagram, which is not the reply to "
                              f"{sends[0].verb} (expected {want[0]})", sig=f"reply-wrong-verb:{sends[0].verb}<-{got}")
            it, p = good[-1]
            data = it["item"][0]
            wire = [r for r in hist if r.dst == sends[0].src and r.deliveries and inner_of(r.data) == data
                    and any(es < p["seq"] for es, _ in r.deliveries)]
            if not wire:
                world.violate(PROP, "reply-from-nowhere", f"{ctx}: returned a reply whose content never came off the wire")
            if not any(any(sends[0].lseq < es for es, _ in r.deliveries) for r in wire):
                res.probe("stale_reply_accepted")
        shape.append((c["kind"], sends[0].verb, len(sends), c["outcome"]))

    # 4. mutual exclusion and FIFO service per connection
    for src, reqs in by_src.items():
        owner: Dict[int, Any] = {}
        for c in calls:
            for r in c.get("sends", []):
                owner[r.seq] = c
        last = None
        for r in reqs:
            c = owner.get(r.seq)
            if c is None and r.who in overlap_names:
                continue
            if c is None:
                world.violate(PROP, "unattributed-request", f"request {r.verb} by {r.who} at {r.t:.3f} belongs to no recorded call")
            if last is not None and c is not last:
                if last["return_seq"] is None or last["return_seq"] > r.lseq:
                    world.violate(PROP, "two-requests-outstanding", f"{r.verb} by {r.who} at {r.t:.3f} sent while call "
                                  f"#{last['id']} {last['kind']} by {last['task']} (first tx {last['sends'][0].t:.3f}) had not returned")
            last = c
        served = sorted((c for c in calls if c.get("sends") and c["sends"][0].src == src), key=lambda c: c["sends"][0].lseq)
        for a, b in zip(served, served[1:]):
            if a["invoke_seq"] > b["invoke_seq"]:
                world.violate(PROP, "not-fifo", f"call #{b['id']} by {b['task']} arrived first (seq {b['invoke_seq']}) but call "
                              f"#{a['id']} by {a['task']} (seq {a['invoke_seq']}) was served before it")
        waiting = 0
        for c in served:
            n_ahead = sum(1 for o in served if o["invoke_seq"] < c["invoke_seq"] and (o["return_seq"] or 0) > c["invoke_seq"])
            waiting = max(waiting, n_ahead)
        if waiting >= 3:
            res.probe("three_or_more_waiters")

    # 4b. every caller is served: a command made through the blocking-style API is handed to a task of the library -- one new task per command,
    #     whatever else is in flight (whether that task then finds a gate closed is its own business)
    for o in ops:
        if o.get("sync") and o.get("outcome") == "returned":
            if o.get("task_created") != 1:
                busy = [c for c in calls if c["task"] == o["sync"] and c["invoke_seq"] < o["invoke_seq"] and (c.get("return_seq") or 10 ** 12) > o["invoke_seq"]]
                world.violate(PROP, "caller-never-served", f"op#{o['k']} {o['op']} at {o['invoke_t']:.2f}: the library started {o.get('task_created')} task(s) for this "
                              f"command ({len(busy)} earlier command(s) of the same kind still in flight): the command is never carried out and nobody is told",
                              sig="caller-never-served:blocking-style-api")
            elif any(c["task"] == o["sync"] and c["invoke_seq"] < o["invoke_seq"] and (c.get("return_seq") or 10 ** 12) > o["invoke_seq"] for c in calls):
                res.probe("blocking_style_command_while_another_of_its_kind_is_in_flight")
    # 5. gates
    for o in ops:
        if o.get("must_silent"):
            sent = [r for r in hist[o["net_mark"]:o.get("net_end", len(hist))] if r.who == o["task"] and r.src[0] != SPA_IP]
            if sent:
                world.violate(PROP, "gate-open", f"op#{o['k']} {o['op']} invoked at {o['invoke_t']:.2f} while {o['must_silent']} "
                              f"sent {len(sent)} datagram(s) ({sent[0].verb})", sig="gate-open:" + o["must_silent"])
    # fault-free liveness
    if res.faultfree:
        for c in calls:
            if c.get("sends") and c["outcome"] == "none":
                world.violate(PROP, "faultfree-call-failed", f"call #{c['id']} {c['kind']}({c['sends'][0].verb}) by {c['task']} "
                              f"failed on a fault-free network after {len(c['sends'])} attempts")
    if any(o.get("outcome") == "cancelled" for o in ops):
        res.probe("caller_cancelled_observed")
    late = [c for c in calls if c.get("sends") and c["outcome"] == "none"]
    if late:
        res.probe("call_failed")
    res.nontrivial = res.faultfree or sum(res.faults.values()) > 0
    res.shape = format(mix(0, repr(sorted(shape))), "x")


def run_case(case: Dict[str, Any], replay: Optional[Dict[str, Any]] = None, keep_log: bool = False) -> RunResult:
    world = WorldA(case, replay, keep_log=keep_log)
    return world.run(scenario)


# ---------------------------------------------------------------------------------------------------
BUDGET = {"quick": 45, "thorough": 600}
RULE = ("Each run = full real client (manager, locator, spa, facade) connected to the model spa, then a seeded plan of 6-30 "
        "concurrent callers (key press, set value, get/set watercare, reminders, refresh, ping; bursts; some cancelled) next to "
        "the library's own ping/refresh/facade loops, under a drawn fault profile (reply loss, request loss, late replies, "
        "duplicates, spa silent for one verb, blackout, loop stalls, mixed, fault-free) and drawn timing tables. The history of "
        "calls/sends/deliveries/pops is checked after the network heals. Non-trivial = fault-free run (liveness obligation) or at "
        "least one fault fired; distinct = distinct event-log digest.")
SHAPE_MEASURE = "hash of the multiset of (call kind, request verb, attempts, outcome) over all request-engine calls of the run"
COMPONENTS = {
    "real": ["GeckoAsyncSpaMan", "GeckoAsyncLocator", "GeckoAsyncSpa (all loops and gates)", "GeckoAsyncFacade", "GeckoAsyncUdpProtocol.get / lock",
             "GeckoUdpProtocolHandler.wait_for_response", "AsyncPeekableQueue", "config_sleep", "GeckoSimulator engine + handlers"],
    "stub": ["OS sockets -> SimNet", "clock -> virtual", "selector -> SimLoop", "spa application semantics (SETWC, SPACK effects) -> ModelSpa"],
}
ASSUMPTIONS = [
    "a caller whose connection is torn down while it waits may complete by raising (counted by a probe, not flagged)",
    "'not answering pings' is the library's own window (2 x ping frequency); the oracle demands silence only when the last ping "
    "reply the ping loop took from the receive queue is older than that window plus 0.3 s (+ injected stall)",
    "STATQ acknowledgements are not requests (sent by the partial-update consumer outside the lock by design)",
]
PROBES = ["caller_through_the_blocking_style_api", "blocking_style_command_while_another_of_its_kind_is_in_flight", "retried_call", "retry_exhausted_call", "three_or_more_waiters", "caller_cancelled", "call_failed",
          "gate_closed:press:ping-silent", "gate_closed:getwc:ping-silent", "gate_closed:set:ping-silent",
          "gate_closed:setwc:ping-silent", "gate_closed:remind:ping-silent"]
N_QUICK = 1600


def jobs(tier: str, base_seed: int):
    if tier == "quick":
        for i in range(0, N_QUICK, 4):
            yield {"kind": "seeded", "first": i, "count": 4, "mandatory": True}
    else:
        i = 0
        while True:
            yield {"kind": "seeded", "first": i, "count": 4}
            i += 4


def job_cases(job, tier: str, base_seed: int):
    from sim.driver import run_seed

    for i in range(job["first"], job["first"] + job["count"]):
        c = gen_case(run_seed(PROP, base_seed, i), tier, i)
        c["subspace"] = "seeded:" + c["cfg"]["profile"]
        yield c
