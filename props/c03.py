"""C03 — change notifications fire exactly once, iff the decoded value changed (dedicated workload)."""

from __future__ import annotations

import asyncio
import random
import struct
from typing import Any, Dict, List, Optional

from sim.core import HarnessError, RunResult, mix
from sim.notify import NotifyMonitor
from sim.peers import snapshot_files
from sim.system import System, draw_tables
from sim.worlda import WorldA

PROP = "C03"
LEVEL = "exploration"
PROFILES = ["clean", "dup", "reorder", "loss", "mixed"]


def gen_case(seed: int, tier: str, index: int) -> Dict[str, Any]:
    if index % 6 == 5:
        from props import c03_t

        return c03_t.gen_case(seed, tier, index // 6)
    return _gen_case_a(seed, tier, index)


def _gen_case_a(seed: int, tier: str, index: int) -> Dict[str, Any]:
    rng = random.Random(mix(seed, "c03.case"))
    profile = PROFILES[index % len(PROFILES)]
    snaps = snapshot_files()
    tables = draw_tables(rng, fast=False)
    for t in tables.values():
        t["PING_DEVICE_NOT_RESPONDING_TIMEOUT_IN_SECONDS"] = 600
    net: Dict[str, Any] = {"lat_min": 0.001, "lat_max": 0.004}
    if profile == "dup":
        net.update(dup=0.4, dup_max=rng.choice([0.01, 0.5]))
    elif profile == "reorder":
        net.update(lat_max=0.3, slow_p=0.1, slow_max=1.0)
    elif profile == "loss":
        net.update(loss=0.15)
    elif profile == "mixed":
        net.update(loss=0.05, dup=0.2, dup_max=0.5, lat_max=0.1)
    n = rng.randint(15, 60) if tier == "quick" else rng.randint(40, 250)
    plan = []
    for _ in range(n):
        k = rng.choices(["statp", "statp_item", "same", "aba", "refresh", "watch2", "unwatch", "rewatch", "spa_unwatch_all", "one_byte", "reentrant", "creep", "a_refresh_a"],
                        [4, 6, 2, 2, 2, 1, 1, 1, 0.5, 2, 1.5, 2.5, 1.2])[0]
        plan.append({"op": k, "a": rng.getrandbits(30), "b": rng.getrandbits(30), "n": rng.choice([1, 1, 2, 3, 6]), "gap": rng.choice([0.0, 0.05, 0.4, 1.5])})
        if k == "reentrant":
            plan[-1]["action"] = rng.choice(["unwatch_all", "unwatch_self", "unwatch_next", "swap_next", "write_other", "write_other"])
    cfg = {"profile": profile, "net": net, "loop": {"cost_small_p": 0.1, "cost_small_max": 0.002}, "tables": tables,
           "snapshot": snaps[(index // len(PROFILES)) % len(snaps)].split("/")[-1]}
    return {"property": PROP, "world": "A", "seed": seed, "cfg": cfg, "plan": plan}


async def scenario(world: WorldA) -> None:
    from geckolib.driver import GeckoStatusBlockProtocolHandler

    cfg = world.cfg
    res = world.result
    res.faultfree = cfg["profile"] == "clean"
    world.net.healed = True
    sysm = System(world)
    model = sysm.peer.sim
    async with sysm.man as man:
        await sysm.wait_connected()
        spa = man.facade.spa
        mon_c = NotifyMonitor(world, spa.struct, "client")
        mon_c.wrap_get()
        mon_s = NotifyMonitor(world, model.structure, "spa")
        nc, ns = mon_c.watch_all(), mon_s.watch_all()
        if nc < 50 or ns < 50:
            raise HarnessError(f"only {nc}/{ns} items to watch")
        accs = sorted(spa.struct.accessors.values(), key=lambda a: (a.pos, a.tag))
        s_accs = sorted(model.structure.accessors.values(), key=lambda a: (a.pos, a.tag))
        world.net.healed = res.faultfree
        refreshes: List[asyncio.Task] = []

        def emit(changes) -> None:
            for pos, data in changes:
                model.structure.replace_status_block_segment(pos, data)
            model.emit_statp(changes)

        for i, op in enumerate(world.case["plan"]):
            if op["gap"]:
                await asyncio.sleep(op["gap"])
            if man.facade is None or man.facade.spa is not spa:
                res.probe("reconnected")
                break
            k = op["op"]
            blk = model.structure.status_block
            if k == "statp":
                ch = []
                for j in range(op["n"]):
                    pos = (op["a"] >> (3 * j)) % 1023
                    ch.append((pos, struct.pack(">H", (op["b"] >> j) & 0xFFFF)))
                if op["n"] >= 2 and op["b"] % 3 == 0:
                    # one message that speaks about the same position twice, with an overlapping record in between (the value changed twice
                    # before the spa flushed its change list): the records take effect one after the other, in the order of the message
                    p0 = min(ch[0][0], 1021)
                    ch = [(p0, ch[0][1]), (p0 + 1, ch[1][1])] + ch[2:] + [(p0, struct.pack(">H", (op["b"] >> 7) & 0xFFFF))]
                    res.probe("message_repeats_a_position")
                    pr0 = spa._protocol
                    busy0 = pr0 is None or pr0.Lock.locked() or any(not t.done() for t in refreshes)
                    mark0 = len(world.net.history)
                    emit(ch)
                    if res.faultfree and not busy0:
                        try:
                            await world.quiesce(extra_idle=0.3, cap=60.0, queues=[pr0.queue])
                        except HarnessError:
                            continue
                        # (a refresh asked for meanwhile carries a snapshot that may be older than the message: not judged then)
                        if any(r.verb == "STATU" and r.src[0] != sysm.peer.ip for r in world.net.history[mark0:]):
                            continue
                        want = model.structure.status_block[p0:p0 + 3]
                        got = spa.struct.status_block[p0:p0 + 3]
                        if got != want and man.facade is not None and man.facade.spa is spa:
                            world.violate(PROP, "update-not-applied", f"op#{i}: one message with the records {[(p, d.hex()) for p, d in ch]} (fault-free network): one second "
                                          f"later the client holds {got.hex()} at {p0}..{p0 + 2}, the spa {want.hex()}: the records did not take effect one after "
                                          f"the other in the order of the message", sig="update-not-applied:position-repeated-in-one-message")
                    continue
                emit(ch)
            elif k == "statp_item":
                # aim at an item: its own position, one byte before (straddles a 2-byte item) or one after
                ch = []
                for j in range(op["n"]):
                    a = accs[(op["a"] + 7 * j) % len(accs)]
                    pos = max(0, min(1022, a.pos + [0, -1, 1, 0][(op["b"] >> (2 * j)) % 4]))
                    cur = blk[pos:pos + 2]
                    # flip a few bits only, so that other items sharing the byte often keep their value
                    val = bytes([cur[0] ^ (1 << ((op["b"] >> j) % 8)), cur[1] ^ ((op["b"] >> (j + 3)) & 1)])
                    ch.append((pos, val))
                emit(ch)
                res.probe("update_aimed_at_item")
            elif k == "creep":
                # a temperature reading creeping by one or two raw units (neighbouring readings are often the same number of tenths of a
                # degree), in whatever unit the spa is set to; now and then the unit itself flips
                temps = [a for a in s_accs if type(a).__name__ == "GeckoTempStructAccessor" and a.pos <= 1022]
                if temps:
                    a = temps[op["a"] % len(temps)]
                    cur = struct.unpack(">H", blk[a.pos:a.pos + 2])[0]
                    if op["b"] % 11 == 0 and "TempUnits" in model.structure.accessors:
                        u = model.structure.accessors["TempUnits"]
                        byte = blk[u.pos] ^ (1 << (u.bitpos or 0))
                        p0 = min(u.pos, 1022)
                        newb = bytearray(blk[p0:p0 + 2])
                        newb[u.pos - p0] = byte
                        emit([(p0, bytes(newb))])
                        res.probe("temperature_unit_flipped")
                    else:
                        step = [1, -1, 2, -2, 1, 1][op["b"] % 6]
                        emit([(a.pos, struct.pack(">H", (cur + step) & 0xFFFF))])
                        res.probe("temperature_creeps_by_a_raw_unit")
            elif k == "one_byte":
                a = s_accs[op["a"] % len(s_accs)]
                model._send_structure_change = True
                try:
                    model._on_set_value(a.pos, 1, op["b"] % 256)
                finally:
                    model._send_structure_change = False
                sysm.peer.kick()
            elif k == "same":
                pos = accs[op["a"] % len(accs)].pos
                pos = min(pos, 1022)
                emit([(pos, blk[pos:pos + 2])])
                res.probe("duplicate_update")
            elif k == "aba":
                pos = min(accs[op["a"] % len(accs)].pos, 1022)
                a0 = blk[pos:pos + 2]
                b0 = bytes([a0[0] ^ 0x01, a0[1] ^ 0x10])
                emit([(pos, b0)])
                await asyncio.sleep(0.02)
                emit([(pos, a0)])
                res.probe("a_b_a")
            elif k == "a_refresh_a":
                # the spa reports A; moves on to B without the report getting through; the client learns B from a refresh; the spa returns to A
                # and reports it with a message byte-identical to the first one: the item changes B -> A and must say so
                a = accs[op["a"] % len(accs)]
                pos = max(0, min(1022, a.pos))
                protocol = spa._protocol
                if protocol is not None and res.faultfree:
                    if refreshes:
                        await asyncio.wait(refreshes, timeout=400)
                    cur = blk[pos:pos + 2]
                    word_a = bytes([cur[0] ^ (1 << (op["b"] % 8)), cur[1] ^ 0x01])
                    word_b = bytes([word_a[0] ^ (1 << ((op["b"] >> 3) % 8)), word_a[1] ^ 0x02])
                    emit([(pos, word_a)])
                    await asyncio.sleep(0.5)
                    mark = len(world.net.history)
                    model.structure.replace_status_block_segment(pos, word_b)          # unreported
                    start = max(0, pos - op["b"] % 40)
                    ok = await spa.struct.get(protocol, lambda: GeckoStatusBlockProtocolHandler.request(
                        protocol.get_and_increment_sequence_counter(False), start, min(1024 - start, 60), parms=spa.sendparms))
                    n_req = sum(1 for r in world.net.history[mark:] if r.verb == "STATU" and r.src[0] != sysm.peer.ip)
                    saw_b = spa.struct.status_block[pos:pos + 2] == word_b
                    emit([(pos, word_a)])
                    await asyncio.sleep(1.0)
                    n_req2 = sum(1 for r in world.net.history[mark:] if r.verb == "STATU" and r.src[0] != sysm.peer.ip)
                    if ok and saw_b and n_req == 1:
                        res.probe("same_message_again_after_a_refresh")
                        got = spa.struct.status_block[pos:pos + 2]
                        # (a library refresh requested in the last second carries A as well: the spa holds A since the second report)
                        if got != word_a and man.facade is not None and man.facade.spa is spa:
                            world.violate(PROP, "update-not-applied", f"op#{i}: the spa reported {word_a!r} at {pos}, a refresh then installed {word_b!r}, the spa "
                                          f"reported {word_a!r} again (same message as the first report); one second later the client still reads {got!r}: "
                                          f"the items of these bytes changed without their observers being told ({n_req2} requests since)")
            elif k == "refresh":
                start = op["a"] % 1000
                length = 1 + op["b"] % min(200, 1024 - start) if op["b"] % 3 else min(1024 - start, 200 + op["b"] % 600)
                # the spa's block has moved on silently (no partial update was sent) at a few items inside the range, so that the refresh
                # itself carries changes -- some of them in different 39-byte segments of the reply
                inside = [a for a in s_accs if start <= a.pos and a.pos + 2 <= start + length]
                for j in range(op["n"] + 1 if inside else 0):
                    a = inside[(op["a"] >> (2 * j)) % len(inside)]
                    pos = min(1022, max(start, a.pos - ((op["b"] >> j) & 1)))
                    cur = model.structure.status_block[pos:pos + 2]
                    model.structure.replace_status_block_segment(pos, bytes([cur[0] ^ 0x5A, cur[1] ^ 0xA5]))
                    res.probe("refresh_carries_changes")
                protocol = spa._protocol
                if protocol is not None:
                    refreshes.append(asyncio.create_task(spa.struct.get(
                        protocol, lambda: GeckoStatusBlockProtocolHandler.request(protocol.get_and_increment_sequence_counter(False), start, length,
                                                                                  parms=spa.sendparms)), name=f"HARNESS:refresh-{i}"))
            elif k == "watch2":
                mon_c.watch(accs[op["a"] % len(accs)], times=2)
                mon_s.watch(s_accs[op["b"] % len(s_accs)], times=2)
            elif k == "unwatch":
                mon_c.unwatch(accs[op["a"] % len(accs)])
                mon_s.unwatch(s_accs[op["b"] % len(s_accs)])
            elif k == "rewatch":
                mon_c.watch(accs[op["a"] % len(accs)])
            elif k == "reentrant":
                # several observers on one item, one of which removes itself / the next one / all of them from inside its callback; then a
                # change of exactly that item (on the client structure and on the spa's: both structure classes)
                a = s_accs[op["a"] % len(s_accs)]
                pos = max(0, min(1022, a.pos))
                cur = blk[pos:pos + 2]
                if op["action"] == "write_other":
                    # spa side only (there a write is applied at once): the observer of one of the items that change writes an item
                    # elsewhere in the block, i.e. starts a block update while the first one is still walking its items
                    ypos = s_accs[(op["a"] + 37) % len(s_accs)].pos
                    if pos - 2 <= ypos <= pos + 3:
                        ypos = (ypos + 50) % 1023
                    mon_s.arm(a, 0, f"write_other:{ypos}:{blk[ypos] ^ 0x55}")
                    emit([(pos, bytes([cur[0] ^ 0xFF, cur[1] ^ 0xFF]))])
                else:
                    for mon, lst in ((mon_c, accs), (mon_s, s_accs)):
                        a2 = lst[op["a"] % len(lst)]
                        mon.add_observers(a2, 2)
                        mon.arm(a2, op["b"] % 3, op["action"])
                    emit([(pos, bytes([cur[0] ^ 0xFF, cur[1] ^ (0xFF if a.length > 1 else 0)]))])
            elif k == "spa_unwatch_all":
                mon_s.unwatch_all(s_accs[op["a"] % len(s_accs)])
        world.net.healed = True
        if refreshes:
            await asyncio.wait(refreshes, timeout=400)
        # let what is in flight arrive and be consumed (bounded; the monitors judge every update whenever it happens)
        t0 = world.now()
        idle = None
        while world.now() - t0 < 120:
            q = spa._protocol.queue if spa._protocol is not None else None
            busy = world.net.in_flight() > 0 or bool(model._socket._send_handlers) or (q is not None and q.qsize() > 0)
            if busy:
                idle = None
            elif idle is None:
                idle = world.now()
            elif world.now() - idle > 0.3:
                break
            await asyncio.sleep(0.05)
        mon_c.finish()
        mon_s.finish()
        for k2 in ("updates", "notifications", "silent_intersecting", "straddling"):
            res.stats["client_" + k2] = mon_c.stats[k2]
            res.stats["spa_" + k2] = mon_s.stats[k2]
        mon_c.unwrap()
        mon_s.unwrap()
    res.nontrivial = mon_c.stats["updates"] > 2
    res.shape = format(mix(0, repr((mon_c.stats, mon_s.stats))), "x")
    res.sample = {"profile": cfg["profile"], "snapshot": cfg["snapshot"], "client": mon_c.stats, "spa": mon_s.stats, "plan": world.case["plan"][:4]}


def run_case(case: Dict[str, Any], replay: Optional[Dict[str, Any]] = None, keep_log: bool = False) -> RunResult:
    if case.get("world") == "T":
        from props import c03_t

        return c03_t.run_case(case, replay, keep_log)
    world = WorldA(case, replay, keep_log=keep_log)
    return world.run(scenario)


# ---------------------------------------------------------------------------------------------------
BUDGET = {"quick": 45, "thorough": 600}
RULE = ("Scope (see DESIGN.md section 3.C03): the geometry of which update intersects which field is a function of its input; what the simulation "
        "adds is the histories -- updates reach a structure only through the STATP consumer and the transfer install, and loss / duplication / "
        "reordering turn them into exactly the sequences the statement is about. Each run = the real client connected to the model spa loaded "
        "with one shipped snapshot (all snapshots in turn); every item of the client's async structure and of the spa-side blocking structure "
        "is watched through the public API; a seeded plan of 15-250 operations: STATP bursts at random and item-aimed positions (own position, "
        "one byte before = straddling, one after; few-bit flips so neighbours keep their value), identical re-sends, A->B->A, the simulator's "
        "1-byte form, refreshes of drawn ranges, watch-twice / unwatch / re-watch / unwatch_all; network clean, dup, reorder, loss, mixed. On "
        "EVERY block update of either structure the notifications are compared with an independent decode of old and new block. "
        "Non-trivial = more than two updates monitored on the client; distinct = distinct event-log digest.")
SHAPE_MEASURE = "hash of the monitor counters (updates, notifications, silent-intersecting, straddling) of both structures"
COMPONENTS = {
    "real": ["GeckoAsyncStructure / GeckoStructure.replace_status_block_segment", "GeckoStructAccessor.status_block_changed and all accessor classes",
             "Observable.watch/unwatch/unwatch_all/_on_change", "generated pack tables of every shipped snapshot's pack", "STATP consumer + transfer install paths"],
    "stub": ["what the spa emits -> harness plan", "sockets/clock/selector"],
}
ASSUMPTIONS = [
    "expected values come from an independent decoder in the harness working from each item's declaration (type, position, width, bit position, max items, labels)",
    "for temperature items 'changed' means the stored word changed; the passed values are only required to differ",
    "coverage of update geometries is measured (probe table), not asserted",
]
PROBES = ["same_message_again_after_a_refresh", "message_repeats_a_position", "observer_writes_another_item_during_the_update", "update_nested_inside_an_update", "temperature_creeps_by_a_raw_unit", "temperature_unit_flipped", "refresh_judged_as_one_update", "observer_blocked_in_callback", "unwatch_from_client_thread", "unwatch_all_from_client_thread", "registration_changed_during_an_update", "several_observers_on_one_item", "reentrant_unwatch_all", "reentrant_unwatch_self", "reentrant_unwatch_next", "reentrant_swap_next", "update_aimed_at_item", "straddling_update_notified", "silent_although_bytes_changed", "duplicate_update", "a_b_a", "watched_twice", "unwatched", "unwatch_all"]
N_QUICK = 1020


def jobs(tier: str, base_seed: int):
    if tier == "quick":
        for i in range(0, N_QUICK, 5):
            yield {"kind": "seeded", "first": i, "count": 5, "mandatory": True}
    else:
        i = 0
        while True:
            yield {"kind": "seeded", "first": i, "count": 5}
            i += 5


def job_cases(job, tier: str, base_seed: int):
    from sim.driver import run_seed

    for i in range(job["first"], job["first"] + job["count"]):
        c = gen_case(run_seed(PROP, base_seed, i), tier, i)
        c["subspace"] = "seeded:" + c["cfg"].get("profile", "threads")
        yield c


def selftest_case(base_seed: int, tier: str, index: int):
    """Determinism self-test: every third index is a World T (threads) case."""
    from sim.driver import run_seed

    i = 6 * (index // 3) + 5 if index % 3 == 2 else index
    return gen_case(run_seed(PROP, base_seed, i), tier, i)
