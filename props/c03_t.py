"""C03, World T: the blocking structure (GeckoStructure in a GeckoSpa) notified on the socket thread while the client thread
watches / unwatches concurrently.  Observers may block inside their callback (they park on the scheduler), so the client thread's
watch / unwatch / unwatch_all calls land in the middle of a notification walk.  Oracle over the recorded history (global event
numbers):
  * an observer is never called after an unwatch()/unwatch_all() that removed it has returned (unless re-registered since);
  * per update, an observer whose registration did not change during the update is called exactly once iff the item's decoded
    value changed (zero times if it was not registered); never twice."""

from __future__ import annotations

import os
import random
import struct
from typing import Any, Dict, List, Tuple

from sim.core import HarnessError, RunResult, mix
from sim.net import SPA_IP, SPA_PORT
from sim.notify import TEMP_CLASS, decode, raw_of
from sim.peers import load_snapshot, make_simulator, model_spa_class, repo_root, snapshot_files
from sim.worldt import WorldT

PROP = "C03"


def gen_case(seed: int, tier: str, index: int) -> Dict[str, Any]:
    rng = random.Random(mix(seed, "c03t.case"))
    snaps = snapshot_files()
    nobs = rng.choice([2, 3, 4])
    plan: List[Dict[str, Any]] = []
    n = rng.randint(10, 30) if tier == "quick" else rng.randint(20, 80)
    for _ in range(n):
        k = rng.choices(["change", "change", "change", "unwatch", "rewatch", "unwatch_all", "same"], [5, 5, 5, 2, 2, 1, 1])[0]
        plan.append({"op": k, "item": rng.randrange(4), "obs": rng.randrange(nobs), "val": rng.getrandbits(16),
                     "gap": rng.choice([0.0, 0.0, 0.002, 0.004, 0.008, 0.02, 0.06, 0.2])})
    cfg = {"snapshot": snaps[index % len(snaps)].split("/")[-1], "nobs": nobs,
           "block_p": rng.choice([0.3, 0.6, 1.0]), "block_max": rng.choice([0.005, 0.02, 0.05]),
           "sched": {"cost_p": 0.2, "cost_max": 0.002},
           "tables": {"idle": {"PING_FREQUENCY_IN_SECONDS": 60, "PING_DEVICE_NOT_RESPONDING_TIMEOUT_IN_SECONDS": 600,
                               "FACADE_UPDATE_FREQUENCY_IN_SECONDS": 600, "SPA_PACK_REFRESH_FREQUENCY_IN_SECONDS": 600}}}
    return {"property": PROP, "world": "T", "seed": seed, "cfg": cfg, "plan": plan}


class Obs:
    def __init__(self, hist: List[Any], world: WorldT, item: int, idx: int, s_block, cfg):
        self.hist, self.world, self.item, self.idx = hist, world, item, idx
        self.s_block, self.cfg = s_block, cfg

    def on_change(self, sender=None, old=None, new=None):
        w = self.world
        self.hist.append((w.log.add("obs-call", self.item, self.idx), "call", self.item, self.idx, old, new))
        if self.s_block.chance(self.cfg["block_p"]):
            # a callback that blocks (takes a lock, does I/O): other threads run meanwhile
            w.sched.park("observer-blocks", cond=None, timeout=self.s_block.uniform(0.0005, self.cfg["block_max"]))
            w.result.probe("observer_blocked_in_callback")


def scenario(world: WorldT) -> None:
    from geckolib.spa import GeckoSpa
    from geckolib.spa_descriptor import GeckoSpaDescriptor

    cfg = world.cfg
    res = world.result
    res.faultfree = True
    with world.host(SPA_IP):
        model = make_simulator(model_spa_class())
        model.set_snapshot(load_snapshot(os.path.join(repo_root(), "tests", "snapshots", cfg["snapshot"])))
        model.do_start("")
    desc = GeckoSpaDescriptor(b"IOSverif-T", b"SPA01:02:03:04:05:06", "Udp Test Spa", (SPA_IP, SPA_PORT))
    world.net.healed = True
    spa = GeckoSpa(desc)
    spa.start_connect()
    if not world.wait_until(lambda: spa._is_connected, 44):
        raise HarnessError("blocking client did not connect on a healthy network")
    world.wait_until(lambda: bool(model._clients), 30)
    # four word-sized, non-bitfield items far from each other
    cand = sorted((a for a in spa.struct.accessors.values() if a.bitpos is None and a.type == "Word" and type(a).__name__ != TEMP_CLASS),
                  key=lambda a: (a.pos, a.tag))
    items = []
    for a in cand:
        if all(abs(a.pos - b.pos) >= 2 for b in items):
            items.append(a)
        if len(items) == 4:
            break
    if len(items) < 2:
        raise HarnessError("not enough word items in this pack")
    hist: List[Any] = []
    s_block = world.choices.stream("c03t.block")
    nobs = cfg["nobs"]
    obs = {(i, k): Obs(hist, world, i, k, s_block, cfg) for i in range(len(items)) for k in range(nobs)}
    registered = {key: False for key in obs}

    def do(kind: str, i: int, k: int) -> None:
        a = items[i]
        hist.append((world.log.add("reg-begin", kind, i, k), kind + "-begin", i, k))
        if kind == "watch":
            a.watch(obs[(i, k)].on_change)
        elif kind == "unwatch":
            a.unwatch(obs[(i, k)].on_change)
        else:
            a.unwatch_all()
        hist.append((world.log.add("reg-end", kind, i, k), kind + "-end", i, k))

    for key in obs:
        do("watch", key[0], key[1])
        registered[key] = True
    # updates are recorded on the socket thread around the structure's own update entry point
    orig = spa.struct.replace_status_block_segment
    updates: List[Dict[str, Any]] = []

    def wrapped(offset, segment):
        u = {"id": len(updates), "old": spa.struct.status_block, "offset": offset, "n": len(segment)}
        updates.append(u)
        hist.append((world.log.add("update-begin", u["id"], offset, len(segment)), "update-begin", u["id"]))
        try:
            return orig(offset, segment)
        finally:
            u["new"] = spa.struct.status_block
            hist.append((world.log.add("update-end", u["id"]), "update-end", u["id"]))
    spa.struct.replace_status_block_segment = wrapped

    for op in world.case["plan"]:
        if op["gap"]:
            world.sleep(op["gap"])
        i = op["item"] % len(items)
        k = op["obs"] % nobs
        a = items[i]
        if op["op"] in ("change", "same"):
            cur = model.structure.status_block[a.pos:a.pos + 2]
            val = cur if op["op"] == "same" else struct.pack(">H", (op["val"] if struct.pack(">H", op["val"]) != cur else op["val"] ^ 1) & 0xFFFF)
            model.structure.replace_status_block_segment(a.pos, val)
            model.emit_statp([(a.pos, val)])
        elif op["op"] == "unwatch":
            if registered[(i, k)]:
                do("unwatch", i, k)
                registered[(i, k)] = False
                res.probe("unwatch_from_client_thread")
        elif op["op"] == "rewatch":
            if not registered[(i, k)]:
                do("watch", i, k)
                registered[(i, k)] = True
        elif op["op"] == "unwatch_all":
            do("unwatch_all", i, -1)
            for kk in range(nobs):
                registered[(i, kk)] = False
            res.probe("unwatch_all_from_client_thread")
    world.wait_until(lambda: world.net.in_flight() == 0 and not model._socket._send_handlers and not spa._socket.inbox, 120, step=0.05)
    world.sleep(0.5)
    spa.struct.replace_status_block_segment = orig

    # ---- oracle over the history -------------------------------------------------------------------------------------
    hist.sort(key=lambda e: e[0])
    label = "[blocking, threads]"
    # registration intervals per observer: list of (seq, kind)
    reg_events: Dict[Tuple[int, int], List[Tuple[int, str]]] = {key: [] for key in obs}
    for e in hist:
        kind = e[1]
        if kind.startswith(("watch-", "unwatch-")) and not kind.startswith("unwatch_all"):
            reg_events[(e[2], e[3])].append((e[0], kind))
        elif kind.startswith("unwatch_all-"):
            for kk in range(nobs):
                reg_events[(e[2], kk)].append((e[0], kind.replace("unwatch_all", "unwatch")))

    def definitely_unregistered_at(key, seq: int) -> bool:
        """True iff the last registration event completed before seq is an unwatch-end and no watch has begun since."""
        last_end = None
        for s, kind in reg_events[key]:
            if s >= seq:
                break
            if kind == "unwatch-end":
                last_end = ("un", s)
            elif kind == "watch-begin":
                last_end = ("w", s)
        return last_end is not None and last_end[0] == "un"

    def state_during(key, s0: int, s1: int):
        """'in' / 'out' if the registration is stable over [s0, s1], else None."""
        st = None
        for s, kind in reg_events[key]:
            if s < s0:
                if kind == "watch-end":
                    st = "in"
                elif kind == "unwatch-end":
                    st = "out"
                elif kind in ("watch-begin", "unwatch-begin"):
                    st = None        # an operation in progress
            elif s <= s1:
                return None
        return st

    calls = [e for e in hist if e[1] == "call"]
    for e in calls:
        key = (e[2], e[3])
        if definitely_unregistered_at(key, e[0]):
            world.violate(PROP, "removed-observer-called", f"{label} observer #{e[3]} of item {items[e[2]].tag} was called (event {e[0]}) after the unwatch that "
                          f"removed it had returned", sig="removed-observer-called:threads")
    bounds: Dict[int, List[int]] = {}
    for e in hist:
        if e[1] == "update-begin":
            bounds[e[2]] = [e[0], None]
        elif e[1] == "update-end":
            bounds[e[2]][1] = e[0]
    n_changed = 0
    for u in updates:
        if "new" not in u or bounds[u["id"]][1] is None:
            continue
        s0, s1 = bounds[u["id"]]
        for i, a in enumerate(items):
            inter = u["offset"] < a.pos + a.length and a.pos < u["offset"] + u["n"]
            changed = inter and decode(a, u["old"]) != decode(a, u["new"])
            n_changed += 1 if changed else 0
            for k in range(nobs):
                got = [c for c in calls if c[2] == i and c[3] == k and s0 < c[0] < s1]
                st = state_during((i, k), s0, s1)
                ctx = f"{label} update #{u['id']} at {u['offset']} len {u['n']}, item {a.tag}, observer #{k} (registration during the update: {st or 'changing'})"
                if len(got) > 1:
                    world.violate(PROP, "notified-twice", f"{ctx}: called {len(got)} times", sig="notified-twice:threads")
                if st == "in" and changed and len(got) != 1:
                    world.violate(PROP, "missed-notification", f"{ctx}: value changed {decode(a, u['old'])!r} -> {decode(a, u['new'])!r} but it was called "
                                  f"{len(got)} time(s)", sig="missed-notification:threads")
                if (st == "out" or not changed) and got:
                    world.violate(PROP, "spurious-notification" if st != "out" else "removed-observer-called",
                                  f"{ctx}: called although " + ("the value did not change" if not changed else "it was not registered"),
                                  sig="spurious-notification:threads" if st != "out" else "removed-observer-called:threads")
                if st is None:
                    res.probe("registration_changed_during_an_update")
                for c in got:
                    if changed and (c[4] != decode(a, u["old"]) or c[5] != decode(a, u["new"])):
                        world.violate(PROP, "wrong-values", f"{ctx}: notified {c[4]!r} -> {c[5]!r}, decoded {decode(a, u['old'])!r} -> {decode(a, u['new'])!r}",
                                      sig="wrong-values:threads")
    outside = [c for c in calls if not any(b[0] < c[0] < (b[1] or 1 << 62) for b in bounds.values())]
    if outside:
        world.violate(PROP, "notification-outside-update", f"{label} {len(outside)} observer call(s) outside any block update")
    spa.complete()
    model._socket.close()
    res.stats["updates"] = len(updates)
    res.stats["calls"] = len(calls)
    res.nontrivial = n_changed > 0
    res.shape = "T" + format(mix(0, repr((len(updates), len(calls), sorted(res.probes.items())))), "x")
    res.sample = {"world": "T", "snapshot": cfg["snapshot"], "updates": len(updates), "calls": len(calls), "observers_per_item": nobs,
                  "items": [a.tag for a in items]}


def run_case(case, replay=None, keep_log=False) -> RunResult:
    return WorldT(case, replay, keep_log=keep_log).run(scenario)
