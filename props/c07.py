"""C07 — dispatch: each datagram consumed once, only by a capable, addressed consumer."""

from __future__ import annotations

import asyncio
import random
import struct
from typing import Any, Dict, List, Optional, Tuple

from sim.client import SPA_ID, task_name
from sim.core import HarnessError, RunResult, mix
from sim.net import SPA_IP, SPA_PORT
from sim.peers import snapshot_files
from sim.system import System, draw_tables
from sim.worlda import WorldA

PROP = "C07"
LEVEL = "exploration"
P = 0.1
CLIENT_ID = b"IOSverif-0001"
SENTINEL = b"\xEE\xEE"

# independent verb table (not derived from can_handle): which verbs a consumer may legitimately take
CONSUMER_VERBS = {
    "SPA:Partial status block handler": {"STATP", "STATQ"},
    "SPA:RFErr handler": {"RFERR"},
    "SPA:WCErr handler": {"WCERR"},
}
CALL_VERBS = {
    "APING": {"APING"}, "AVERS": {"AVERS", "SVERS"}, "CURCH": {"CURCH", "CHCUR"}, "SFILE": {"SFILE", "FILES"},
    "STATU": {"STATU", "STATV"}, "GETWC": {"WCGET"}, "SETWC": {"WCSET"}, "REQRM": {"REQRM", "RMREQ"},
    "SPACK": {"SPACK", "PACKS"},
}
PROFILES = ["calm", "bursty", "misaddr", "malformed", "mixed", "stall"]
KINDS = ["reply_nobody", "unknown", "statp", "misaddr", "malframed", "hello", "rferr", "wcerr", "short"]


def frame(src: bytes, dst: bytes, inner: bytes) -> bytes:
    return b"<PACKT><SRCCN>" + src + b"</SRCCN><DESCN>" + dst + b"</DESCN><DATAS>" + inner + b"</DATAS></PACKT>"


def gen_case(seed: int, tier: str, index: int) -> Dict[str, Any]:
    rng = random.Random(mix(seed, "c07.case"))
    profile = PROFILES[index % len(PROFILES)] if index < 3 * len(PROFILES) else rng.choice(PROFILES)
    tables = draw_tables(rng, fast=True)
    loop_cfg: Dict[str, Any] = {"cost_small_p": 0.15, "cost_small_max": 0.003}
    if profile == "stall":
        loop_cfg.update(cost_stall_p=0.004, cost_stall_min=0.03, cost_stall_max=rng.choice([0.15, 0.4, 1.0]))
    dur = rng.choice([30, 60, 120]) if tier == "quick" else rng.choice([60, 150, 300])
    weights = {"calm": [3, 3, 3, 1, 1, 1, 0, 0.3, 1], "bursty": [3, 3, 3, 1, 1, 1, 0, 0.2, 1], "misaddr": [1, 1, 2, 8, 1, 0, 0, 0.2, 0.5],
               "malformed": [1, 2, 1, 1, 8, 2, 0, 0, 3], "mixed": [2, 2, 2, 2, 2, 1, 0.15, 0.3, 1.5], "stall": [2, 2, 2, 2, 2, 1, 0, 0.2, 1]}[profile]
    n = rng.randint(15, 80) if tier == "quick" else rng.randint(30, 250)
    plan: List[Dict[str, Any]] = []
    t = 0.5
    k = 0
    while k < n and t < dur:
        burst = rng.choice([1, 1, 1, 2, 3]) if profile != "bursty" else rng.choice([1, 2, 4, 8, 15])
        for _ in range(burst):
            kind = rng.choices(KINDS, weights)[0]
            plan.append({"op": "junk", "t": round(t, 4), "kind": kind, "arg": rng.getrandbits(30), "n": k})
            k += 1
            if rng.random() < 0.5:
                t += rng.choice([0.0, 0.0005, 0.02, 0.1])
        # keep the mean arrival rate below the queue's service rate (one pop per consumer per 0.1 s)
        t += rng.uniform(0.15, 0.6) * burst + rng.choice([0, 0, 0.5, 3.0])
    # some request-engine callers so that waiters are active while junk arrives
    for j in range(rng.randint(0, 8)):
        plan.append({"op": "call", "t": round(rng.uniform(0.5, dur), 4), "kind": rng.choice(["getwc", "remind", "press", "refresh"]),
                     "arg": rng.getrandbits(16), "n": 1000 + j})
    plan.sort(key=lambda o: (o["t"], o["n"]))
    snaps = snapshot_files()
    cfg = {"profile": profile, "net": {"lat_min": 0.001, "lat_max": 0.003}, "loop": loop_cfg, "tables": tables, "duration": dur,
           "snapshot": snaps[rng.randrange(len(snaps))].split("/")[-1],
           "suspend_p": rng.choice([0.0, 0.2, 0.5]), "suspend_max": rng.choice([0.2, 0.6])}
    if index % 16 == 15:
        # two clients, each with its own spa, in one process
        cfg.update(two_clients=True, snapshot2=snaps[rng.randrange(len(snaps))].split("/")[-1], duration=rng.choice([10, 30]), suspend_p=0.0)
        plan = []
    return {"property": PROP, "world": "A", "seed": seed, "cfg": cfg, "plan": plan}


def make_junk(op: Dict[str, Any], client_id: bytes) -> Tuple[bytes, Dict[str, Any]]:
    """Returns (datagram, label). label: addressed (True/False/None=ambiguous), framed, verb, src_override."""
    rng = random.Random(op["arg"])
    n = op["n"]
    tag = struct.pack(">H", n & 0xFFFF)
    spa = SPA_ID.encode()
    kind = op["kind"]
    lab: Dict[str, Any] = {"kind": kind, "addressed": True, "framed": True, "src": None, "n": n}
    if kind == "reply_nobody":
        inner = rng.choice([
            b"SVERS" + struct.pack(">HBBHBB", 88, 15, 0, 89, 11, n & 0xFF),
            b"CHCUR" + struct.pack(">BB", 10, n & 0xFF),
            b"FILES,inXM_C09.xml,inXM_S09.xml",
            b"WCGET" + bytes([n % 5]),
            b"RMREQ" + struct.pack("<BhB", 1, n & 0x7FFF, 1),
            b"PACKS",
            b"APING\x00",
            b"STATV" + struct.pack(">BBB", 200, 5, 4) + tag + tag,
            b"WCSET" + bytes([n % 5]),
        ])
        return frame(spa, client_id, inner), dict(lab, verb=inner[:5].decode())
    if kind == "unknown":
        inner = rng.choice([b"XQZZY", b"ZZTOP", b"ABCDE", b"STATX", b"PINGA"]) + tag + bytes(rng.getrandbits(8) for _ in range(rng.randint(0, 20)))
        return frame(spa, client_id, inner), dict(lab, verb=inner[:5].decode("latin1"))
    if kind == "statp":
        cnt = rng.randint(0, 3)
        recs = b"".join(struct.pack(">H", 700 + rng.randrange(100)) + bytes([n & 0xFF, rng.getrandbits(8) & 0x7F]) for _ in range(cnt))
        return frame(spa, client_id, b"STATP" + bytes([cnt]) + recs), dict(lab, verb="STATP", records=cnt)
    if kind == "rferr":
        return frame(spa, client_id, b"RFERR"), dict(lab, verb="RFERR")
    if kind == "wcerr":
        return frame(spa, client_id, b"WCERR"), dict(lab, verb="WCERR")
    if kind == "hello":
        d = rng.choice([b"<HELLO>1</HELLO>", b"<HELLO>SPA99:99|Other Spa</HELLO>", b"<HELLO>IOSsomeone</HELLO>"])
        return d, dict(lab, verb="HELLO", framed=False, addressed=None)
    if kind == "misaddr":
        inner = rng.choice([b"STATP\x01" + struct.pack(">H", 800 + n % 100) + SENTINEL, b"RFERR", b"APING\x00", b"WCERR",
                            b"STATP\x02" + struct.pack(">H", 900 + n % 50) + SENTINEL + struct.pack(">H", 960 + n % 50) + SENTINEL])
        how = rng.choice(["wrong_src", "wrong_dst", "swapped", "empty_src", "empty_dst", "both_wrong", "wrong_ip", "wrong_port", "case"])
        s, d = spa, client_id
        if how == "wrong_src":
            s = b"SPA09:09:09:09:09:09"
        elif how == "wrong_dst":
            d = b"IOSsomebody-else"
        elif how == "swapped":
            s, d = client_id, spa
        elif how == "empty_src":
            s = b""
        elif how == "empty_dst":
            d = b""
        elif how == "both_wrong":
            s, d = b"X", b"Y"
        elif how == "case":
            s = spa.lower()
        elif how == "wrong_ip":
            lab["src"] = ("10.0.0.77", SPA_PORT)
        elif how == "wrong_port":
            lab["src"] = (SPA_IP, 10023)
        return frame(s, d, inner + (b"" if inner[:5] != b"STATP" else b"")), dict(lab, verb=inner[:5].decode(), addressed=False, how=how)
    if kind == "short":
        # fewer bytes than a verb has: an empty datagram, fragments of known verbs -- raw, or as the payload of a well-addressed packet
        frag = rng.choice([b"", b"R", b"RF", b"ERR", b"RFER", b"STAT", b"APIN", b"WC", b"<PA", b"\x00"])
        if rng.random() < 0.5:
            return frag, dict(lab, verb=frag.decode("latin1"), framed=False, addressed=None, how="raw")
        return frame(spa, client_id, frag), dict(lab, verb=frag.decode("latin1"), how="framed")
    if kind == "malframed":
        inner = rng.choice([b"STATP\x01" + struct.pack(">H", 850 + n % 50) + SENTINEL, b"RFERR", b"XQZZY" + tag])
        how = rng.choice(["no_close", "no_descn", "no_datas", "no_srccn", "nested_ids", "tags_in_payload", "trailing", "only_open"])
        good = frame(spa, client_id, inner)
        if how == "no_close":
            return good[:-len(b"</PACKT>")], dict(lab, verb="?", framed=False, addressed=None, how=how)
        if how == "trailing":
            return good + b"\n", dict(lab, verb="?", framed=False, addressed=None, how=how)
        if how == "only_open":
            return b"<PACKT>" + tag, dict(lab, verb="?", framed=False, addressed=None, how=how)
        if how == "no_descn":
            return (b"<PACKT><SRCCN>" + spa + b"</SRCCN><DATAS>" + inner + b"</DATAS></PACKT>"), dict(lab, verb=inner[:5].decode("latin1"), addressed=False, how=how)
        if how == "no_datas":
            return (b"<PACKT><SRCCN>" + spa + b"</SRCCN><DESCN>" + client_id + b"</DESCN>" + inner + b"</PACKT>"), dict(lab, verb=inner[:5].decode("latin1"), addressed=False, how=how)
        if how == "no_srccn":
            return (b"<PACKT><DESCN>" + client_id + b"</DESCN><DATAS>" + inner + b"</DATAS></PACKT>"), dict(lab, verb=inner[:5].decode("latin1"), addressed=False, how=how)
        if how == "nested_ids":
            # wrong identifiers outside, right ones hidden in the payload: must not be taken for addressed
            evil = frame(b"SPA66:66", b"IOSevil", b"JUNK1" + frame(spa, client_id, inner))
            return evil, dict(lab, verb="?", addressed=None, how=how)
        if how == "tags_in_payload":
            inner2 = b"XQZZY" + tag + b"</DATAS><DATAS>" + b"\n</PACKT>\n<PACKT>"
            return frame(spa, client_id, inner2), dict(lab, verb="XQZZY", addressed=None, how=how)
    raise HarnessError("unknown junk kind " + kind)


async def two_clients(world: WorldA) -> None:
    """Two client-and-spa pairs in one process (a home with two spas): every datagram of a connection is consumed by tasks of that
    connection's own manager, both managers connect and stay connected, and each client mirrors its own spa."""
    cfg = world.cfg
    res = world.result
    world.net.healed = True
    world.loop.stalls_on = False
    a = System(world, exclusive=True)
    b = System(world, spa_ip="10.0.0.11", client_uuid="verif-0002", exclusive=True, snapshot=cfg.get("snapshot2"))
    async with a.man:
        async with b.man:
            for sysm, name in ((a, "first"), (b, "second")):
                try:
                    await sysm.wait_connected(cap=150)
                except HarnessError:
                    world.violate(PROP, "wrong-consumer", f"two clients in one process: the {name} manager did not connect to its spa on a healthy network "
                                  f"(state {sysm.man.spa_state}); the two connections interfere", sig="two-clients:no-connection")
            for k in range(6):
                for sysm in (a, b):
                    spa = sysm.spa
                    if spa is not None and spa.is_connected:
                        try:
                            await (spa.async_get_watercare() if k % 2 else spa.async_press(21 + k % 2))
                        except Exception:
                            res.probe("op_raised")
                await asyncio.sleep(1.0)
            await asyncio.sleep(cfg.get("duration", 20))
            for sysm, other, name in ((a, b, "first"), (b, a, "second")):
                mine = set(getattr(sysm.man, "_tasks", [])) | sysm.all_tasks
                for label, q in sysm.queues.items():
                    for it in q.items:
                        for p in it["pops"]:
                            t = p.get("by_obj")
                            if t is not None and t not in mine and not str(p["by"]).startswith("HARNESS"):
                                world.violate(PROP, "wrong-consumer", f"two clients in one process: a datagram ({_verb(it['item'][0])}) received on the {name} "
                                              f"client's connection {label} was taken by {p['by']}, a task of the other client", sig="two-clients:cross-consumption")
                if sysm.man.facade is None or sysm.spa is None:
                    world.violate(PROP, "wrong-consumer", f"two clients in one process: the {name} client lost its connection on a healthy network",
                                  sig="two-clients:connection-lost")
                elif sysm.spa.struct.status_block != sysm.peer.block:
                    world.violate(PROP, "misaddressed-effect", f"two clients in one process: the {name} client's block differs from its own spa's",
                                  sig="two-clients:block-mismatch")
    res.probe("two_clients_in_one_process")
    res.nontrivial = True
    res.faultfree = True
    res.shape = "two-clients"
    res.sample = {"two_clients": True}


async def scenario(world: WorldA) -> None:
    from geckolib.driver import GeckoStatusBlockProtocolHandler

    if world.cfg.get("two_clients"):
        return await two_clients(world)
    cfg = world.cfg
    res = world.result
    world.net.healed = True
    world.loop.stalls_on = False
    sysm = System(world)
    labels: Dict[Tuple[bytes, Tuple[str, int]], Dict[str, Any]] = {}
    rf_addressed = 0
    events: List[Any] = []

    async with sysm.man as man:
        try:
            await sysm.wait_connected()
        except HarnessError:
            # the healthy-network setup failed: if the queue history already shows why, that is the verdict
            qs = [getattr(p, "queue", None) for p in sysm.protocols.values()]
            qs = [q for q in qs if q is not None]
            if len({id(q) for q in qs}) < len(qs):
                world.violate(PROP, "wrong-consumer", "the manager cannot connect on a healthy network and two of its endpoints (discovery / connection) "
                              "hold the very same receive-queue object: a datagram received on one endpoint is offered to the other one's consumers",
                              sig="shared-receive-queue")
            world.cfg["_snapshot_ids"] = set()
            check(world, sysm, labels, events, 10 ** 9)
            raise
        base = world.now()
        world.loop.stalls_on = True
        man.on_delivery.append(lambda d: events.append(d))
        # the connection's notion of "the spa answered a ping" (the time of the last ping reply) is client state: watch every change of it
        lp_state: Dict[str, Any] = {"spa": None, "val": None}
        lp_changes: List[Dict[str, Any]] = []
        world.cfg["_lp_changes"] = lp_changes

        def lp_monitor() -> None:
            spa = sysm.spa
            if spa is None or not hasattr(spa, "_last_ping"):
                return
            v = spa._last_ping
            if lp_state["spa"] is not spa:
                lp_state.update(spa=spa, val=v)
            elif v != lp_state["val"]:
                lp_state["val"] = v
                lp_changes.append({"t": world.now(), "label": getattr(spa, "_verif_label", None)})
        world.loop.monitors.append(lp_monitor)
        tasks: List[asyncio.Task] = []

        async def call(op):
            spa = sysm.spa
            if spa is None:
                return
            protocol = getattr(spa, "_protocol", None)
            try:
                if op["kind"] == "getwc":
                    await spa.async_get_watercare()
                elif op["kind"] == "remind":
                    await spa.async_get_reminders()
                elif op["kind"] == "press":
                    await spa.async_press(21 + op["arg"] % 2)
                elif op["kind"] == "refresh" and protocol is not None:
                    await spa.struct.get(protocol, lambda: GeckoStatusBlockProtocolHandler.request(
                        protocol.get_and_increment_sequence_counter(False), op["arg"] % 900, 40 + op["arg"] % 80, parms=spa.sendparms))
            except asyncio.CancelledError:
                raise
            except Exception:
                res.probe("op_raised")

        for op in world.case["plan"]:
            wait = base + op["t"] - world.now()
            if wait > 0:
                await asyncio.sleep(wait)
            if op["op"] == "call":
                tasks.append(asyncio.create_task(call(op), name=f"HARNESS:op-{op['n']}"))
                continue
            spa = sysm.spa
            tr = sysm.client_endpoint_of(spa) if spa is not None else None
            if tr is None or tr.is_closing():
                res.probe("junk_without_connection")
                continue
            data, lab = make_junk(op, spa.client_id)
            src = lab["src"] or (SPA_IP, SPA_PORT)
            labels[(data, src)] = lab
            lab["endpoint"] = tr.label
            lab["t"] = world.now()
            if lab["kind"] == "rferr":
                rf_addressed += 1
            world.net.inject(src, tr.local, data, delay=0.0005, who="junk:" + lab["kind"])
            res.fault("junk:" + lab["kind"] + (":" + lab["how"] if "how" in lab else ""))
        rest = base + cfg["duration"] - world.now()
        if rest > 0:
            await asyncio.sleep(rest)
        world.loop.stalls_on = False
        if tasks:
            done, still = await asyncio.wait(tasks, timeout=200)
            for t in still:
                t.cancel()
        # drain: every item that was queued on the live connection by now must leave the queue.  The queue is
        # served at one pop per consumer per polling interval, so a backlog takes time to clear: the bound is
        # progress (pops keep happening while one of those items is still queued), not a fixed time.
        await asyncio.sleep(0.5)
        snapshot_items = []
        for lb, q in sysm.queues.items():
            spa = sysm.spa
            if spa is not None and getattr(spa, "_verif_label", None) == lb and not sysm.transports[lb].is_closing():
                snapshot_items = [it for it in q.items if not it["pops"]]
                live_q = q
        last_left = None
        last_progress = world.now()
        drained = False
        t0 = world.now()
        while world.now() - t0 < 2000:
            left = sum(1 for it in snapshot_items if not it["pops"])
            if left == 0:
                drained = True
                break
            if sysm.spa is None or getattr(sysm.spa, "_verif_label", None) != live_q.label:
                drained = True          # the connection was abandoned meanwhile: nothing more is owed
                break
            if left != last_left:
                last_left = left
                last_progress = world.now()
            elif world.now() - last_progress > 3.0:
                break                   # still queued and nothing taken for 3 s: stuck
            await asyncio.sleep(0.1)
        world.cfg["_drained"] = drained
        world.cfg["_snapshot_ids"] = {(live_q.label if snapshot_items else None, it["id"]) for it in snapshot_items}
        check(world, sysm, labels, events, rf_addressed)
    res.sample = {"profile": cfg["profile"], "junk": [(o["kind"], o["t"]) for o in world.case["plan"][:10] if o["op"] == "junk"],
                  "faults": dict(res.faults)}


def check(world: WorldA, sysm: System, labels, events, rf_addressed: int) -> None:
    res = world.result
    calls = sysm.calls.calls
    shape = []
    now = world.now()
    # which spa object / teardown time per endpoint label
    for label, q in sysm.queues.items():
        tr = sysm.transports[label]
        proto = sysm.protocols[label]
        is_loc = not any(getattr(s, "_verif_label", None) == label for s in sysm.spas)
        spa = next((s for s in sysm.spas if getattr(s, "_verif_label", None) == label), None)
        abandoned = is_loc or spa is None or spa is not sysm.spa
        packet_pops: List[Any] = []
        for ep in q.empty_pops:
            world.violate(PROP, "pop-after-removal", f"{label}: {ep['by']} popped at {ep['t']:.3f} but the datagram it had "
                          f"peeked had already been removed by another consumer (queue empty)")
        for it in q.items:
            data, sender = it["item"]
            verb = _verb(data)
            pops = it["pops"]
            ctx = f"{label} item#{it['id']} {verb} put at {it['put_t']:.3f}"
            if it["put_by"] not in ("loop", "SPA:Packet handler") and not str(it["put_by"]).startswith("HARNESS"):
                # only the endpoint (a datagram arrived) and the packet consumer (the content of a well-addressed packet) put things on the
                # queue: a consumer that puts back what it has just taken makes one datagram leave the queue again and again
                world.violate(PROP, "popped-twice", f"{ctx}: put on the queue by {it['put_by']}, a consumer: a datagram it had taken was put back",
                              sig="requeued-by-consumer:" + str(it["put_by"]).split(":")[-1].replace(" ", "-"))
            res.stats["items"] = res.stats.get("items", 0) + 1
            if len(pops) > 1:
                world.violate(PROP, "popped-twice", f"{ctx}: popped {len(pops)} times by {[p['by'] for p in pops]}")
            if not pops:
                if abandoned:
                    continue
                if (label, it["id"]) not in world.cfg.get("_snapshot_ids", set()):
                    continue        # arrived after the drain snapshot: still legitimately in transit
                world.violate(PROP, "never-popped", f"{ctx}: still in the receive queue {now - it['put_t']:.1f}s after arrival "
                              f"(queue drained: {world.cfg.get('_drained')})")
            p = pops[0]
            by = p["by"]
            # -- who may take it -------------------------------------------------------------------------------
            kindp = "?"
            if by == "SPA:Unhandled packet":
                kindp = "unhandled"
                res.probe("discarded_unhandled")
            elif by in ("SPA:Packet handler",):
                kindp = "packet"
                if not (data.startswith(b"<PACKT>") and data.endswith(b"</PACKT>")):
                    world.violate(PROP, "wrong-consumer", f"{ctx}: taken by the packet consumer but is not a framed packet")
            elif by == "LOC:Hello handler":
                kindp = "hello"
                if not (data.startswith(b"<HELLO>") and data.endswith(b"</HELLO>")):
                    world.violate(PROP, "wrong-consumer", f"{ctx}: taken by the hello consumer but is not a hello")
            else:
                allowed = set(CONSUMER_VERBS.get(by, set()))
                active = [c for c in calls if c["task"] == by and c["invoke_seq"] < p["seq"] and (c["return_seq"] is None or p["seq"] < c["return_seq"])]
                for c in active:
                    for r in c.get("sends_verbs", _call_verbs(world, c)):
                        allowed |= CALL_VERBS.get(r, set())
                    kindp = "waiter"
                if by in CONSUMER_VERBS and verb in CONSUMER_VERBS[by]:
                    kindp = "consumer"
                if verb not in allowed:
                    world.violate(PROP, "wrong-consumer", f"{ctx}: taken by {by}, which accepts {sorted(allowed)} only",
                                  sig=f"wrong-consumer:{by.split(':')[0]}")
            # -- head residence -----------------------------------------------------------------------------------
            if it["head_t"] is not None:
                resid = p["t"] - it["head_t"]
                stall = (p["stall"] - it.get("head_stall", p["stall"])) / 1e9
                res.stats["max_head_residence_ms"] = max(res.stats.get("max_head_residence_ms", 0), int((resid - stall) * 1000))
                if resid - stall > 4 * P + 0.01:
                    world.violate(PROP, "head-of-line-blocking", f"{ctx}: stayed at the head of the queue for {resid:.3f}s "
                                  f"(injected stall {stall:.3f}s), limit {4 * P}s")
            # -- addressing: the packet consumer re-queues the content iff the identifiers are this connection's pair --
            if kindp == "packet" and spa is not None:
                packet_pops.append((p["seq"], it))
            if verb in ("XQZZY", "ZZTOP", "ABCDE", "STATX", "PINGA") and kindp == "unhandled":
                res.probe("unknown_verb_discarded")
            shape.append((verb, kindp))
        # each packet taken by the packet consumer is followed (before the next one is taken) by a re-queue of its
        # content iff its identifiers and source are this connection's pair
        puts = sorted((it["put_seq"], it["item"][0]) for it in q.items if it["put_by"] == "SPA:Packet handler")
        packet_pops.sort(key=lambda x: x[0])
        for i, (s0, it) in enumerate(packet_pops):
            s1 = packet_pops[i + 1][0] if i + 1 < len(packet_pops) else float("inf")
            data, sender = it["item"]
            lab = lab_of(labels, data, sender)
            addressed = True if lab is None else lab["addressed"]
            W = [d for (ps, d) in puts if s0 < ps < s1]
            inner = _inner_strict(data)
            ctx = f"{label} packet item#{it['id']} ({'spa traffic' if lab is None else lab['kind'] + ':' + str(lab.get('how'))})"
            if addressed is True:
                if W != [inner]:
                    world.violate(PROP, "addressed-dropped", f"{ctx}: correctly addressed packet, but its content was re-queued {len(W)} time(s)")
            elif addressed is False:
                if W:
                    world.violate(PROP, "misaddressed-accepted", f"{ctx}: not addressed to this connection, but its content "
                                  f"{W[0][:20]!r} was re-queued", sig="misaddressed-accepted:" + str(lab.get("how")))
                res.probe("misaddressed_dropped")
            else:
                if len(W) > 1:
                    world.violate(PROP, "addressed-dropped", f"{ctx}: content re-queued {len(W)} times")
        # sentinel bytes written by mis-addressed / mal-framed STATP must never reach the block
        if spa is not None:
            blk = spa.struct.status_block
            for pos in range(800, 1010):
                if blk[pos:pos + 2] == SENTINEL:
                    world.violate(PROP, "misaddressed-effect", f"{label}: sentinel bytes of a mis-addressed packet found in the client block at {pos}")
    # the time of the last ping reply moves only when the ping loop has just taken a ping reply from the queue; a mis-addressed packet
    # consumed at that moment must not be what moved it
    for c in world.cfg.get("_lp_changes", []):
        q = sysm.queues.get(c["label"])
        if q is None:
            continue
        near = [(it, p) for it in q.items for p in it["pops"] if c["t"] - 0.15 <= p["t"] <= c["t"] + 1e-9]
        if any(it["item"][0].startswith(b"APING") for it, p in near if str(p["by"]).startswith("SPA:Ping loop")):
            res.probe("ping_time_moved_by_ping_reply")
            continue
        mis = [lab_of(labels, it["item"][0], it["item"][1]) for it, p in near]
        mis = [m for m in mis if m is not None and m.get("kind") == "misaddr"]
        if mis:
            world.violate(PROP, "misaddressed-effect", f"{c['label']}: the connection's last-ping time moved at {c['t']:.3f} although the ping loop had "
                          f"taken no ping reply; a mis-addressed packet ({mis[0].get('how')}) was consumed just before", sig="misaddressed-effect:last-ping-moved")
    # RF events only from properly addressed RFERR
    rf_events = sum(1 for d in events if d["event"].name == "ERROR_RF_ERROR")
    if rf_events > rf_addressed:
        world.violate(PROP, "misaddressed-effect", f"{rf_events} RF-error events delivered but only {rf_addressed} addressed RFERR datagrams were sent")
    res.nontrivial = sum(res.faults.values()) > 0
    res.shape = format(mix(0, repr(shape)), "x")


def lab_of(labels, data, sender):
    return labels.get((data, (sender[0], sender[1])))


def _call_verbs(world, c) -> List[str]:
    """Request verbs of a request-engine call, from the requests it built (a request built after the connection was torn
    down is never put on the wire, but its waiter still polls the queue)."""
    vs = set()
    for (_t, _timeout, req) in c.get("built", []):
        try:
            data = req.send_bytes
        except Exception:
            continue
        i = data.find(b"<DATAS>")
        if i >= 0:
            vs.add(data[i + 7:i + 12].decode("latin1"))
    if c["kind"] == "struct.get":
        vs.add("STATU")
    return sorted(vs)


def _verb(data: bytes) -> str:
    if data.startswith(b"<PACKT>"):
        return "PACKT"
    if data.startswith(b"<HELLO>"):
        return "HELLO"
    return data[:5].decode("latin1", "replace")


def _inner_strict(data: bytes) -> Optional[bytes]:
    i = data.find(b"<DATAS>")
    j = data.rfind(b"</DATAS>")
    if i < 0 or j < 0:
        return None
    return data[i + 7:j]


def run_case(case: Dict[str, Any], replay: Optional[Dict[str, Any]] = None, keep_log: bool = False) -> RunResult:
    world = WorldA(case, replay, keep_log=keep_log)
    return world.run(scenario)


# ---------------------------------------------------------------------------------------------------
BUDGET = {"quick": 45, "thorough": 600}
RULE = ("Each run = full real client connected to the model spa, then a seeded sequence (singles and bursts) of known replies nobody "
        "waits for, unknown verbs, unsolicited STATP/RFERR/WCERR, mis-addressed packets (wrong/empty/swapped identifiers, wrong source "
        "address) carrying sentinel STATP/RFERR/ping content, mal-framed packets and stray HELLOs injected at the connection's endpoint, "
        "with request-engine callers active, drawn loop costs/stalls and client-handler suspension. The queue put/pop history is "
        "checked. Non-trivial = at least one junk datagram injected; distinct = distinct event-log digest.")
SHAPE_MEASURE = "hash of the sequence of (verb, kind of consumer that took it) over every queue item of the run"
COMPONENTS = {
    "real": ["AsyncPeekableQueue", "GeckoUdpProtocolHandler.consume / wait_for_response", "GeckoUnhandledProtocolHandler.consume",
             "GeckoPacketProtocolHandler", "GeckoAsyncSpa._async_on_packet and all consumers", "manager, facade, locator", "GeckoSimulator"],
    "stub": ["OS sockets -> SimNet (junk injected at the client endpoint)", "clock", "selector"],
}
ASSUMPTIONS = [
    "inner payloads of known verbs are well-formed (a truncated STATP kills its consumer by struct.error: outside the quantifier)",
    "the mean junk rate stays below the queue's service rate (one pop per consumer per polling interval)",
    "who may take a datagram is judged from an independent verb table in the harness, not from can_handle",
    "packets whose framing is ambiguous (tag text inside identifiers/payload) are only held to exactly-once and residence",
]
PROBES = ["two_clients_in_one_process", "discarded_unhandled", "misaddressed_dropped", "unknown_verb_discarded"]
N_QUICK = 2400


def jobs(tier: str, base_seed: int):
    if tier == "quick":
        for i in range(0, N_QUICK, 6):
            yield {"kind": "seeded", "first": i, "count": 6, "mandatory": True}
    else:
        i = 0
        while True:
            yield {"kind": "seeded", "first": i, "count": 6}
            i += 6


def job_cases(job, tier: str, base_seed: int):
    from sim.driver import run_seed

    for i in range(job["first"], job["first"] + job["count"]):
        c = gen_case(run_seed(PROP, base_seed, i), tier, i)
        c["subspace"] = "seeded:" + c["cfg"]["profile"]
        yield c
