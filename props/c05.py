"""C05 — partial updates are applied exactly once, in arrival order, and acknowledged."""

from __future__ import annotations

import asyncio
import random
import struct
from typing import Any, Dict, List, Optional, Tuple

from sim.core import HarnessError, RunResult, mix
from sim.net import SPA_IP, inner_of
from sim.peers import snapshot_files
from sim.system import System, draw_tables
from sim.worlda import WorldA

PROP = "C05"
LEVEL = "exploration"
PROFILES = ["faultfree", "loss", "dup", "reorder", "stall", "mixed"]


def gen_case(seed: int, tier: str, index: int) -> Dict[str, Any]:
    if index % 3 == 2:
        from props import c05_t

        return c05_t.gen_case(seed, tier, index // 3, _gen_case_a)
    return _gen_case_a(seed, tier, index)


def _gen_case_a(seed: int, tier: str, index: int) -> Dict[str, Any]:
    rng = random.Random(mix(seed, "c05.case"))
    world = "A"
    profile = PROFILES[index % len(PROFILES)] if index < 3 * len(PROFILES) else rng.choice(PROFILES)
    tables = draw_tables(rng, fast=False)
    for t in tables.values():
        t["PING_DEVICE_NOT_RESPONDING_TIMEOUT_IN_SECONDS"] = 600      # keep one connection for the whole run
        t["PROTOCOL_RETRY_COUNT"] = 10
    net: Dict[str, Any] = {"lat_min": 0.001, "lat_max": 0.004}
    loop_cfg: Dict[str, Any] = {"cost_small_p": 0.15, "cost_small_max": 0.003}
    if profile == "loss":
        net["loss"] = rng.choice([0.05, 0.15, 0.3])
    elif profile == "dup":
        net.update(dup=rng.choice([0.2, 0.5]), dup_max=rng.choice([0.01, 0.3, 2.0]))
    elif profile == "reorder":
        net.update(lat_max=rng.choice([0.1, 0.4]), slow_p=0.15, slow_max=rng.choice([0.5, 2.0]))
    elif profile == "stall":
        loop_cfg.update(cost_stall_p=0.004, cost_stall_min=0.03, cost_stall_max=rng.choice([0.2, 1.0]))
    elif profile == "mixed":
        net.update(loss=0.1, dup=0.2, dup_max=1.0, lat_max=0.15, slow_p=0.05, slow_max=1.0)
        loop_cfg.update(cost_stall_p=0.002, cost_stall_min=0.03, cost_stall_max=0.5)
    n = rng.randint(5, 40) if tier == "quick" else rng.randint(20, 200)
    long_session = index % 12 == 7
    if long_session:
        # more than one full cycle of protocol sequence numbers (191) on one connection, acknowledgements among them
        profile = "faultfree"
        net = {"lat_min": 0.001, "lat_max": 0.004}
        n = rng.randint(230, 420)
    plan: List[Dict[str, Any]] = []
    t = 0.0
    early = rng.random() < 0.3 and profile in ("faultfree", "stall", "dup", "loss")
    val = rng.randrange(1, 60000)
    hot = [rng.randrange(0, 1022) for _ in range(4)]
    for k in range(n):
        t += rng.choice([0.0, 0.002, 0.05, 0.3, 1.0, 3.0]) if not long_session else rng.choice([0.25, 0.4])
        kind = rng.choices(["statp", "set1", "refresh", "revert", "wcerr"], [6, 2, 2, 0.7, 0.8] if not long_session else [8, 1, 0.3, 0.1, 0.3])[0]
        if kind == "wcerr":
            # the spa announces a watercare problem; the client asks for the watercare mode (its consumer is suspended in that exchange);
            # a partial update leaves the spa right behind the answer
            val = (val + 1) % 65536
            plan.append({"op": "wcerr", "t": round(t, 4), "recs": [[rng.choice(hot), val]], "behind": rng.choice([0.0, 0.0, 0.002, 0.05])})
            t += rng.choice([0.0, 0.3, 2.0])
            continue
        if kind == "revert":
            # refresh; a reported change of one word; the spa returns to the old value WITHOUT reporting it (that report is lost); refresh
            # again: the second refresh carries exactly what the first one carried and must put the old value back
            val = (val + 1) % 65536
            plan.append({"op": "revert", "t": round(t, 4), "pos": rng.randrange(300, 700), "val": val})
            t += 6.0
            continue
        if kind == "statp":
            cnt = rng.choice([0, 1, 1, 2, 3, 8, 30]) if rng.random() > 0.04 else rng.choice([200, 226, 240, 255])     # up to the one-byte maximum
            recs = []
            for _ in range(cnt):
                pos = rng.choice(hot) if rng.random() < 0.4 else rng.choice([0, 1, 1021, 1022, rng.randrange(0, 1023)])
                val = (val + 1) % 65536
                recs.append([pos, val])
            if cnt >= 2 and rng.random() < 0.3:
                recs[-1][0] = recs[0][0]         # repeated position inside one message
            prev = [o for o in plan if o["op"] == "statp" and o["recs"]]
            if prev and rng.random() < 0.12:
                recs = [list(r) for r in prev[-1]["recs"]]      # the spa reports the very same change again (byte-identical message)
            plan.append({"op": "statp", "t": round(t, 4), "recs": recs})
        elif kind == "set1":
            val = (val + 1) % 65536
            plan.append({"op": "set1", "t": round(t, 4), "pos": rng.choice(hot + [rng.randrange(0, 1024)]), "val": val % 256})
        else:
            start = max(0, rng.choice(hot) - rng.randrange(0, 60))
            plan.append({"op": "refresh", "t": round(t, 4), "start": start, "length": min(1024 - start, rng.choice([1, 40, 120, 400]))})
    snaps = snapshot_files()
    if long_session:
        early = False
    cfg = {"profile": profile, "net": net, "loop": loop_cfg, "tables": tables, "early": early, "long_session": long_session,
           "snapshot": snaps[rng.randrange(len(snaps))].split("/")[-1]}
    return {"property": PROP, "world": world, "seed": seed, "cfg": cfg, "plan": plan}


async def scenario(world: WorldA) -> None:
    from geckolib.driver import GeckoStatusBlockProtocolHandler

    cfg = world.cfg
    res = world.result
    res.faultfree = cfg["profile"] == "faultfree"
    world.net.healed = True
    world.loop.stalls_on = False
    sysm = System(world)
    model = sysm.peer.sim
    sent_msgs: List[Any] = []
    armed_taps: List[Dict[str, Any]] = []

    async def emitter(base: float):
        for op in world.case["plan"]:
            wait = base + op["t"] - world.now()
            if wait > 0:
                await asyncio.sleep(wait)
            if op["op"] == "statp":
                changes = [(pos, struct.pack(">H", v)) for pos, v in op["recs"]]
                for pos, data in changes:
                    model.structure.replace_status_block_segment(pos, data)
                model.emit_statp(changes)
                sent_msgs.append(changes)
                if not changes:
                    res.probe("empty_message")
                if len(changes) >= 200:
                    res.probe("message_with_200_or_more_records")
                if len({p for p, _ in changes}) < len(changes):
                    res.probe("repeated_position_in_message")
            elif op["op"] == "set1":
                # the simulator's own single 1-byte form (what `do_set` produces)
                model._send_structure_change = True
                try:
                    model._on_set_value(op["pos"], 1, op["val"])
                finally:
                    model._send_structure_change = False
                sysm.peer.kick()
                res.probe("one_byte_change")
            elif op["op"] == "wcerr":
                if sysm.man.facade is None:
                    continue
                changes = [(pos, struct.pack(">H", v)) for pos, v in op["recs"]]
                armed = {"on": True, "timers": 0}
                armed_taps.append(armed)

                def fire(changes=changes, armed=armed):
                    armed["timers"] -= 1
                    for pos, data in changes:
                        model.structure.replace_status_block_segment(pos, data)
                    model.emit_statp(changes)
                    sent_msgs.append(changes)
                    res.probe("update_right_behind_a_watercare_answer")

                def tap(kind, rec, armed=armed, op=op, fire=fire):
                    if armed["on"] and kind == "tx" and rec.verb == "WCGET" and rec.src[0] == sysm.peer.ip:
                        armed["on"] = False
                        armed["timers"] += 1
                        world.loop.call_later(op["behind"], fire)
                world.net.taps.append(tap)
                model.emit_raw(b"WCERR")
                res.probe("watercare_error_announced")
            elif op["op"] == "refresh":
                spa = sysm.spa
                protocol = getattr(spa, "_protocol", None) if spa is not None else None
                if protocol is None or not spa.is_connected:
                    continue
                asyncio.create_task(refresh(spa, protocol, op), name=f"HARNESS:refresh-{len(sent_msgs)}")
            elif op["op"] == "revert":
                spa = sysm.spa
                protocol = getattr(spa, "_protocol", None) if spa is not None else None
                if protocol is None or not spa.is_connected:
                    continue
                rng_op = {"start": 256, "length": 507}
                await refresh(spa, protocol, rng_op)
                old_word = model.structure.status_block[op["pos"]:op["pos"] + 2]
                new_word = struct.pack(">H", op["val"]) if struct.pack(">H", op["val"]) != old_word else bytes([old_word[0] ^ 1, old_word[1]])
                model.structure.replace_status_block_segment(op["pos"], new_word)
                model.emit_statp([(op["pos"], new_word)])
                sent_msgs.append([(op["pos"], new_word)])
                await asyncio.sleep(0.5)
                model.structure.replace_status_block_segment(op["pos"], old_word)        # unreported
                await refresh(spa, protocol, rng_op)
                res.probe("refresh_restores_a_value_after_an_unreported_revert")

    async def refresh(spa, protocol, op):
        try:
            await spa.struct.get(protocol, lambda: GeckoStatusBlockProtocolHandler.request(
                protocol.get_and_increment_sequence_counter(False), op["start"], op["length"], parms=spa.sendparms))
        except asyncio.CancelledError:
            raise
        except Exception:
            res.probe("refresh_raised")

    async with sysm.man as man:
        if cfg.get("early"):
            # start emitting as soon as the spa knows the client (first ping), i.e. during the handshake
            async def early():
                while not model._clients:
                    await asyncio.sleep(0.05)
                res.probe("message_during_handshake")
                world.net.healed = res.faultfree
                world.loop.stalls_on = True
                await emitter(world.now())
            em = asyncio.create_task(early(), name="HARNESS:emitter")
            try:
                await sysm.wait_connected(cap=300)
            except HarnessError:
                # faults during the handshake can legitimately defeat it; heal and let the manager recover
                res.probe("early_faults_defeated_handshake")
                await em
                world.net.healed = True
                world.loop.stalls_on = False
                try:
                    await sysm.wait_connected(cap=300)
                except HarnessError:
                    # e.g. the manager's ERROR_SPA_NOT_FOUND sink (a C09 matter); judge what was recorded
                    res.probe("manager_stuck_after_early_faults")
        else:
            await sysm.wait_connected()
            world.net.healed = res.faultfree
            world.loop.stalls_on = True
            em = asyncio.create_task(emitter(world.now()), name="HARNESS:emitter")
        await em
        await asyncio.sleep(1.0)
        world.net.healed = True
        world.loop.stalls_on = False
        # an announced watercare problem whose query is still waiting for its turn: let it be answered (bounded), then stop arming
        t0 = world.now()
        while any(a["on"] or a["timers"] for a in armed_taps) and world.now() - t0 < 60:
            await asyncio.sleep(0.2)
        for a in armed_taps:
            a["on"] = False
        # wait for every harness refresh and for the queues to drain
        t0 = world.now()
        while world.now() - t0 < 600:
            busy = any(t.get_name().startswith("HARNESS:refresh") and not t.done() for t in asyncio.all_tasks())
            busy = busy or world.net.in_flight() > 0 or model._socket._send_handlers or any(a["timers"] for a in armed_taps)
            for lb, q in sysm.queues.items():
                if q._live and not sysm.transports[lb].is_closing():
                    busy = True
            if not busy:
                break
            await asyncio.sleep(0.2)
        await asyncio.sleep(0.5)
        check(world, sysm)
    res.sample = {"profile": cfg["profile"], "early": cfg.get("early"), "plan": world.case["plan"][:5], "faults": dict(res.faults)}


def decode_statp(inner: bytes) -> List[Tuple[int, bytes]]:
    """Independent decode of STATP: count, then records of position:2 + data (2 bytes; the simulator's
    one-byte form carries a single 1-byte record)."""
    cnt = inner[5]
    body = inner[6:]
    out = []
    for i in range(cnt):
        rec = body[i * 4:i * 4 + 4]
        if len(rec) < 3:
            break
        out.append((struct.unpack(">H", rec[0:2])[0], bytes(rec[2:4])))
    return out


def check(world: WorldA, sysm: System) -> None:
    res = world.result
    hist = world.net.history
    if len(sysm.spas) != 1:
        res.probe("reconnected")
    for spa in sysm.spas:
        label = spa._verif_label
        tr = sysm.transports[label]
        single = spa is sysm.spas[-1] and spa is sysm.spa     # the live connection; earlier ones were abandoned
        qrec = sysm.queues.get(label)
        if single and qrec is not None and qrec._live:
            # the receive queue had not drained when the run's (bounded) patience ended -- a backlog of unclaimed duplicates is discarded at five
            # a second: what is still queued has not been handled yet, so only the prefix rule applies
            single = False
            res.probe("receive_queue_not_drained_at_the_end")
        # A: STATP datagrams as delivered to this endpoint, in delivery order (a duplicate is an arrival)
        arrivals: List[Tuple[int, Any]] = []
        for r in hist:
            if r.dst == tr.local and r.verb == "STATP":
                for es, t in r.deliveries:
                    arrivals.append((es, r))
        arrivals.sort(key=lambda x: x[0])
        expected: List[Tuple[int, bytes]] = []
        for es, r in arrivals:
            expected.extend(decode_statp(inner_of(r.data)))
        rec = next(i for i in sysm.installs if i.label == "client:" + label)
        partial = [(w["offset"], w["segment"]) for w in rec.installs if w["by"] == "SPA:Partial status block handler"]
        others = [w for w in rec.installs if w["by"] != "SPA:Partial status block handler"]
        res.stats["arrivals"] = res.stats.get("arrivals", 0) + len(arrivals)
        res.stats["partial_writes"] = res.stats.get("partial_writes", 0) + len(partial)
        if len({id(r) for _, r in arrivals}) < len(arrivals):
            res.probe("duplicate_datagram_arrived")
        if len(arrivals) >= 2:
            res.probe("two_or_more_messages")
        if len(arrivals) >= 192:
            res.probe("more_than_a_full_sequence_cycle_of_messages")
        if single:
            if partial != expected:
                # classify
                k = 0
                while k < min(len(partial), len(expected)) and partial[k] == expected[k]:
                    k += 1
                if len(partial) > len(expected) or (k < len(partial) and partial[k] not in expected[k:]):
                    cls = "extra-or-replayed-change"
                    what = f"write #{k} {partial[k] if k < len(partial) else None} is not the next arrived change {expected[k] if k < len(expected) else None}"
                elif len(partial) < len(expected):
                    cls = "dropped-change"
                    what = f"{len(expected)} changes arrived, {len(partial)} applied; first difference at #{k}: expected {expected[k]}"
                else:
                    cls = "out-of-order-change"
                    what = f"first difference at #{k}: applied {partial[k]}, arrival order has {expected[k]}"
                world.violate(PROP, cls, f"{label}: partial updates applied differ from arrival order: {what}")
        else:
            # a connection was abandoned mid-run: only demand that what was applied is a prefix of arrivals
            if partial != expected[:len(partial)]:
                world.violate(PROP, "extra-or-replayed-change", f"{label}: applied partial writes are not a prefix of the arrived changes")
        # acknowledgements: exactly one STATQ per arrival, protocol-range sequence byte
        acks = [r for r in hist if r.src == tr.local and r.verb == "STATQ"]
        for r in acks:
            seqb = inner_of(r.data)[5]
            if not (1 <= seqb <= 191):
                world.violate(PROP, "ack-sequence-range", f"{label}: STATQ carries sequence {seqb}, outside 1..191")
            if len(inner_of(r.data)) != 6:
                world.violate(PROP, "ack-malformed", f"{label}: STATQ content {inner_of(r.data)!r}")
        if single and len(acks) != len(arrivals):
            world.violate(PROP, "ack-count", f"{label}: {len(arrivals)} partial-update messages arrived, {len(acks)} acknowledgements sent")
        if not single and len(acks) > len(arrivals):
            world.violate(PROP, "ack-count", f"{label}: more acknowledgements ({len(acks)}) than arrivals ({len(arrivals)})")
        # every ack follows its arrival: the k-th ack is sent after the k-th arrival
        for k, r in enumerate(acks[:len(arrivals)]):
            if r.lseq < arrivals[k][0]:
                world.violate(PROP, "ack-before-arrival", f"{label}: acknowledgement #{k} sent before message #{k} arrived")
        # the final block equals the fold of every recorded write over the initial block, and nothing else wrote
        blk = b"\x00" * 1024
        for w in rec.installs:
            if w["before"] != blk:
                if w["before"] == b"\x00" * 1024:
                    res.probe("structure_reset_at_disconnect")       # disconnect() resets the structure: not an update
                else:
                    world.violate(PROP, "unrecorded-write", f"{label}: the block changed outside a recorded update before write at {w['t']:.3f}")
            blk = blk[:w["offset"]] + w["segment"] + blk[w["offset"] + len(w["segment"]):]
            if len(blk) != 1024:
                # a refresh that swallowed stale segments of another transfer (C01's quantifier excludes that); not C05's claim
                res.probe("block_length_changed_by_refresh")
        if single and spa.struct.status_block != blk:
            world.violate(PROP, "unrecorded-write", f"{label}: final block is not the fold of the recorded writes")
        # what a refresh installs is ONE answer of the spa: the chain it sent in reply to the request that was outstanding (not pieces of an
        # answer to an earlier, abandoned attempt mixed with it).  Judged when no segment of an earlier answer was still under way.
        # (judged where the network neither duplicates nor delays.  A segment of an earlier answer that was still waiting in the client's own
        #  receive queue when the retry went out may rightly be taken for one of the current answer -- segments carry no request identity --,
        #  so the reference is what the refreshing task itself took from the queue during its last attempt, not what the spa sent)
        if world.cfg["profile"] in ("loss", "faultfree", "stall"):
            q = sysm.queues.get(label)
            for w in others:
                reqs = [r for r in hist if r.src == tr.local and r.verb == "STATU" and r.who == w["by"] and r.lseq is not None and r.lseq < w["seq"]]
                if not reqs or q is None:
                    continue
                last = reqs[-1]
                taken = []
                for it in q.items:
                    if not it["item"][0].startswith(b"STATV"):
                        continue
                    for pp in it["pops"]:
                        if pp["by"] == w["by"] and last.lseq < pp["seq"] < w["seq"]:
                            taken.append((pp["seq"], it["item"][0]))
                taken.sort()
                # the assembly rule, restated: within an attempt a segment is accepted when its index is the next expected one (others are
                # ignored); the chain is complete when the accepted segment says "no next"
                parts: List[bytes] = []
                want_idx = 0
                for _, d in taken:
                    if d[5] == want_idx:
                        parts.append(d[8:8 + d[7]])
                        want_idx += 1
                        if d[6] == 0:
                            break
                answer = b"".join(parts)
                if answer != w["segment"]:
                    world.violate(PROP, "replayed-change", f"{label}: the refresh installed at {w['t']:.3f} (offset {w['offset']}, {len(w['segment'])} bytes) is not what "
                                  f"{w['by']} took from the receive queue during its last attempt (request sent at {last.t:.3f}; {len(taken)} segments, "
                                  f"{len(answer)} bytes): bytes collected during an earlier, abandoned attempt were installed with it",
                                  sig="refresh-mixes-attempts")
                else:
                    res.probe("refresh_is_one_answer_of_the_spa")
        # refresh installs that overlap positions a partial update changed
        ppos = {o for o, _ in partial}
        for w in others:
            if any(w["offset"] <= p < w["offset"] + len(w["segment"]) for p in ppos):
                res.probe("refresh_over_partial")
                break
        # after quiescence on a healed network with nothing lost: client mirrors the spa wherever the last writer wins
        if single and res.faultfree:
            spa_blk = sysm.peer.block
            diff = [i for i in range(1024) if spa.struct.status_block[i] != spa_blk[i]]
            # a position may differ only if a refresh install overwrote a later partial value with an older snapshot;
            # on a fault-free network arrival order equals emission order, so that cannot happen for partial positions
            if diff:
                res.probe("faultfree_block_differs")
    res.nontrivial = res.stats.get("arrivals", 0) >= 2
    res.shape = format(mix(0, repr([res.stats.get("arrivals", 0), res.stats.get("partial_writes", 0), sorted(res.faults.items())])), "x")


def run_case(case: Dict[str, Any], replay: Optional[Dict[str, Any]] = None, keep_log: bool = False) -> RunResult:
    if case.get("world") == "T":
        from props import c05_t

        return c05_t.run_case(case, replay, keep_log)
    world = WorldA(case, replay, keep_log=keep_log)
    return world.run(scenario)


# ---------------------------------------------------------------------------------------------------
BUDGET = {"quick": 45, "thorough": 600}
RULE = ("Each run = real client connected to the model spa; the spa emits a seeded history of STATP messages (0-30 records of "
        "position+word, hot and boundary positions, repeated positions, unique values, plus the simulator's own 1-byte form) "
        "interleaved with harness refreshes of overlapping ranges, under loss (of STATP or STATQ), duplication, reordering, stalls; "
        "some runs start emitting during the handshake. Checked over the recorded history: applied partial writes == concatenation "
        "of the records of the STATP datagrams in arrival order; one STATQ per arrival with sequence in 1..191. Non-trivial = at "
        "least two messages arrived at one handler instance; distinct = distinct event-log digest.")
SHAPE_MEASURE = "hash of (arrivals, partial writes, fired fault counts) per run"
COMPONENTS = {
    "real": ["World T (1 run in 3): GeckoSpa + GeckoPartialStatusBlockProtocolHandler + GeckoSpa._on_partial_status_update on the real engine thread",
             "GeckoAsyncPartialStatusBlockProtocolHandler", "GeckoAsyncSpa._async_on_partial_status_update", "packet un-wrapper + queue",
             "GeckoAsyncStructure", "GeckoPartialStatusBlockProtocolHandler.report_changes (spa side encoder)", "GeckoSimulator engine"],
    "stub": ["when/what the spa emits -> harness plan via ModelSpa.emit_statp", "sockets/clock/selector"],
}
ASSUMPTIONS = [
    "records stay inside the 1024-byte block",
    "arrival order is the order of delivery to the client's endpoint (a duplicated datagram is a second arrival)",
    "if the connection is torn down mid-run (rare; probe 'reconnected') only prefix consistency is demanded of the abandoned one",
]
PROBES = ["refresh_is_one_answer_of_the_spa", "update_right_behind_a_watercare_answer", "watercare_error_announced", "refresh_restores_a_value_after_an_unreported_revert", "message_with_200_or_more_records", "more_than_a_full_sequence_cycle_of_messages", "two_or_more_messages", "empty_message", "repeated_position_in_message", "duplicate_datagram_arrived",
          "refresh_over_partial", "message_during_handshake", "one_byte_change"]
N_QUICK = 720


def jobs(tier: str, base_seed: int):
    if tier == "quick":
        for i in range(0, N_QUICK, 6):
            yield {"kind": "seeded", "first": i, "count": 6, "mandatory": True}
    else:
        i = 0
        while True:
            yield {"kind": "seeded", "first": i, "count": 6}
            i += 6


def job_cases(job, tier: str, base_seed: int):
    from sim.driver import run_seed

    for i in range(job["first"], job["first"] + job["count"]):
        c = gen_case(run_seed(PROP, base_seed, i), tier, i)
        c["subspace"] = f"world{c['world']}:" + c["cfg"]["profile"]
        yield c
