"""C16 — sequence numbers: requests cycle 1..191, commands 192..255, never 0."""

from __future__ import annotations

import asyncio
import random
from typing import Any, Dict, List, Optional

from sim.core import HarnessError, RunResult, mix
from sim.net import SPA_IP, SPA_PORT, inner_of
from sim.peers import load_snapshot, make_simulator, model_spa_class, repo_root, snapshot_files
from sim.worlda import WorldA
from sim.worldt import WorldT

PROP = "C16"
LEVEL = "exploration"
KINDS = ["concurrent", "walk-sync", "walk-async", "wire-async", "wire-sync"]
PROTO_VERBS = {"AVERS", "CURCH", "SFILE", "STATU", "GETWC", "SETWC", "REQRM", "STATQ"}


def succ(v: int, command: bool) -> int:
    """Reference model: the successor in the kind's own cycle."""
    if command:
        return 192 if v >= 255 else v + 1
    return 1 if v >= 191 else v + 1


def gen_case(seed: int, tier: str, index: int) -> Dict[str, Any]:
    rng = random.Random(mix(seed, "c16.case"))
    kind = KINDS[index % len(KINDS)] if index % 10 < 5 else "concurrent"
    cfg: Dict[str, Any] = {"kind": kind, "net": {"lat_min": 0.001, "lat_max": 0.004}}
    plan: List[Dict[str, Any]] = []
    if kind == "concurrent":
        cfg["world"] = "T"
        cfg["sched"] = {"preempt_p": rng.choice([0.05, 0.2, 0.5]), "preempt_files": ["udp_socket.py"]}
        n = rng.randint(2, 6)
        cfg["callers"] = n
        cfg["advance_protocol"] = rng.choice([0, 150, 185, 188, 190])
        cfg["advance_command"] = rng.choice([0, 40, 58, 61, 63])
        for c in range(n):
            for j in range(rng.randint(2, 9)):
                plan.append({"caller": c, "op": rng.choice(["proto", "proto", "cmd", "cmd", "send", "reg"])})
    elif kind in ("walk-sync", "walk-async"):
        cfg["world"] = "T" if kind == "walk-sync" else "A"
        plan = [{"op": rng.choice(["proto", "cmd"])} for _ in range(2 * 255 + rng.randint(0, 60))]
        plan += [{"op": "proto"} for _ in range(400)] if rng.random() < 0.5 else [{"op": "cmd"} for _ in range(140)]
    elif kind == "wire-async":
        cfg["world"] = "A"
        cfg["tables"] = {m: {"SPA_PACK_REFRESH_FREQUENCY_IN_SECONDS": rng.choice([2, 5]), "FACADE_UPDATE_FREQUENCY_IN_SECONDS": rng.choice([2, 5]),
                             "PING_FREQUENCY_IN_SECONDS": 2} for m in ("active", "idle")}
        cfg["snapshot"] = snapshot_files()[rng.randrange(len(snapshot_files()))].split("/")[-1]
        cfg["loop"] = {"cost_small_p": 0.1, "cost_small_max": 0.002}
        if rng.random() < 0.5:
            from sim.system import draw_firmware

            cfg["firmware"] = draw_firmware(rng)
        if rng.random() < 0.5:
            # lossy runs: retried requests draw fresh numbers, unsolicited STATP acknowledgements draw while a request waits
            cfg["lossy"] = True
            cfg["net"].update({"loss": rng.choice([0.05, 0.12, 0.25]), "slow_p": 0.05, "slow_max": rng.choice([0.5, 3.0]), "dup": 0.03,
                               "send_error_p": rng.choice([0.0, 0.02, 0.08])})
            for m in ("active", "idle"):
                cfg["tables"][m].update({"PROTOCOL_TIMEOUT_IN_SECONDS": rng.choice([1, 2]), "PROTOCOL_RETRY_COUNT": rng.choice([2, 4]),
                                         "PING_DEVICE_NOT_RESPONDING_TIMEOUT_IN_SECONDS": 20})
        t = 0.0
        for _ in range(rng.randint(120, 200)):
            t += rng.choice([0.3, 1.0, 2.5])
            plan.append({"op": rng.choice(["press", "set", "setwc", "getwc", "remind", "statp", "reset"] if rng.random() < 0.015 else
                                          ["press", "set", "press", "set", "press", "set", "setwc", "getwc", "remind", "statp"]), "t": round(t, 2), "arg": rng.randrange(1 << 16)})
    elif kind == "wire-sync":
        cfg["world"] = "T"
        cfg["snapshot"] = snapshot_files()[rng.randrange(len(snapshot_files()))].split("/")[-1]
        cfg["tables"] = {"idle": {"PING_FREQUENCY_IN_SECONDS": rng.choice([1, 2]), "FACADE_UPDATE_FREQUENCY_IN_SECONDS": rng.choice([2, 5])}}
        # the user's thread issues commands while the ping thread, the facade's update thread and the socket engine draw numbers of their own:
        # line-level pre-emption inside the blocking spa object (spa.py), so that the other threads run between any two lines of a command
        cfg["sched"] = {"preempt_p": rng.choice([0.0, 0.1, 0.3, 0.6]), "preempt_files": ["/spa.py"], "cost_p": 0.1, "cost_max": 0.002,
                        # now and then the pre-empted thread stays off the processor long enough for the other threads' timers to come due
                        "preempt_stall_p": rng.choice([0.0, 0.02, 0.1]), "preempt_stall_max": rng.choice([0.5, 2.5])}
        if rng.random() < 0.6:
            # lossy run with the protocol counter advanced to just below its wrap: retransmissions of the requests numbered 189..191, 1..
            cfg["lossy"] = True
            cfg["advance_protocol_to"] = rng.choice([180, 186, 188, 189, 190])
            cfg["net"].update({"loss": rng.choice([0.15, 0.3])})
            cfg["tables"]["idle"].update({"PROTOCOL_TIMEOUT_IN_SECONDS": rng.choice([0.5, 1]), "PING_DEVICE_NOT_RESPONDING_TIMEOUT_IN_SECONDS": 600})
        for _ in range(rng.randint(20, 80)):
            plan.append({"op": rng.choice(["pump_mode", "switch", "eco", "watercare", "temp", "press"]), "arg": rng.randrange(1 << 16),
                         "gap": rng.choice([0.1, 0.3, 1.0])})
    return {"property": PROP, "world": cfg["world"], "seed": seed, "cfg": cfg, "plan": plan}


def check_wire(world, res: RunResult, who: str) -> None:
    """Every datagram a client put on the wire: command range for SPACK, protocol range for the rest; successors per connection."""
    last: Dict[Any, Dict[str, int]] = {}
    n = 0
    for r in world.net.history:
        if r.src[0] == SPA_IP or r.src[1] == SPA_PORT and r.src[0] == SPA_IP:
            continue
        inner = inner_of(r.data)
        if len(inner) < 6:
            continue
        verb = inner[:5].decode("latin1")
        seqb = inner[5]
        if verb == "SPACK":
            n += 1
            res.stats["spack_on_wire"] = res.stats.get("spack_on_wire", 0) + 1
            what = "key-press" if len(inner) > 8 and inner[8] == 57 else "set-value"
            if not (192 <= seqb <= 255):
                world.note(PROP, "command-outside-command-range", f"{who}: SPACK {what} carries sequence {seqb}, outside 192..255 (sent by {r.who})",
                           sig=f"command-outside-command-range:{who}:{what}")
            k = "cmd"
        elif verb in PROTO_VERBS:
            n += 1
            res.stats["proto_on_wire"] = res.stats.get("proto_on_wire", 0) + 1
            if not (1 <= seqb <= 191):
                world.note(PROP, "request-outside-protocol-range", f"{who}: {verb} carries sequence {seqb}, outside 1..191 (sent by {r.who})",
                           sig=f"request-outside-protocol-range:{who}:{verb}")
            k = "proto"
        else:
            continue
        if who == "async":
            st = last.setdefault(r.src, {})
            if k in st:
                want = succ(st[k], k == "cmd")
                if seqb != want and (192 <= seqb <= 255 if k == "cmd" else 1 <= seqb <= 191):
                    world.note(PROP, "not-successor-on-wire", f"{who}: {verb} from {r.src} carries {seqb}, the previous {k} sequence on this connection "
                               f"was {st[k]} (successor {want})")
                if seqb < st[k]:
                    res.probe("wrap_on_wire_" + k)
            elif seqb != (192 if k == "cmd" else 1):
                world.note(PROP, "connection-does-not-start-own-cycle", f"{who}: first {k} sequence on connection {r.src} is {seqb}")
            st[k] = seqb
    res.stats["wire_checked"] = res.stats.get("wire_checked", 0) + n


# -- (1) concurrent callers on the threaded socket ---------------------------------------------------------------
def concurrent(world: WorldT) -> None:
    from geckolib.driver import GeckoUdpSocket

    from props.c20 import handler_classes

    TagHandler, PrefixHandler = handler_classes()
    cfg = world.cfg
    res = world.result
    sock = GeckoUdpSocket()
    sock.open()
    # advance sequentially (single caller, checked against the model) to just below a wrap
    vals = {"proto": 0, "cmd": 191}
    for _ in range(cfg["advance_protocol"]):
        v = sock.get_and_increment_sequence_counter(False)
        if v != succ(vals["proto"], False):
            world.violate(PROP, "not-successor", f"threaded counter: protocol value {v} after {vals['proto']}")
        vals["proto"] = v
    for _ in range(cfg["advance_command"]):
        v = sock.get_and_increment_sequence_counter(True)
        if v != succ(vals["cmd"], True):
            world.violate(PROP, "not-successor", f"threaded counter: command value {v} after {vals['cmd']}")
        vals["cmd"] = v
    calls: List[Dict[str, Any]] = []
    done = {"n": 0}
    ncall = cfg["callers"]
    sink = ("10.0.0.50", 5000)

    def caller(c: int) -> None:
        for op in [o for o in world.case["plan"] if o["caller"] == c]:
            if op["op"] in ("proto", "cmd"):
                rec = {"kind": op["op"], "caller": c, "inv": world.log.add("draw-invoke", c, op["op"])}
                rec["val"] = sock.get_and_increment_sequence_counter(op["op"] == "cmd")
                rec["ret"] = world.log.add("draw-return", c, rec["val"])
                calls.append(rec)
            elif op["op"] == "send":
                sock.queue_send(TagHandler(send_bytes=b"X"), sink)
            else:
                h = PrefixHandler(c, [b"ZZ"], "", [])
                sock.add_receive_handler(h)
                sock.remove_receive_handler(h)
        done["n"] += 1

    for c in range(ncall):
        world.sched.spawn(lambda c=c: caller(c), f"HARNESS:caller-{c}")
    world.wait_until(lambda: done["n"] == ncall, 600)
    ctx = f"{ncall} callers, preempt_p={cfg['sched']['preempt_p']}, start proto={vals['proto']} cmd={vals['cmd']}, {world.sched.preemptions} pre-emptions"
    for kind, command in (("proto", False), ("cmd", True)):
        mine = [c for c in calls if c["kind"] == kind]
        got = [c["val"] for c in mine]
        lo, hi = (192, 255) if command else (1, 191)
        bad = [v for v in got if not (lo <= v <= hi)]
        if bad:
            world.violate(PROP, "value-out-of-range", f"{ctx}: {kind} values {bad[:5]} outside {lo}..{hi}")
        # linearizability against fetch-and-increment: the values are exactly the next len(got) successors, each once ...
        want = []
        v = vals[kind]
        for _ in got:
            v = succ(v, command)
            want.append(v)
        if sorted(got) != sorted(want):
            dup = sorted({x for x in got if got.count(x) > 1})
            world.violate(PROP, "not-linearizable", f"{ctx}: {kind} values handed out {sorted(got)} are not the {len(got)} successors of {vals[kind]} "
                          f"({sorted(want)}); duplicated {dup}", sig="not-linearizable:" + ("duplicate" if dup else "gap"))
        # ... and whenever one call returned before another was invoked its value precedes the other's
        rank = {val: i for i, val in enumerate(want)}
        for a in mine:
            for b in mine:
                if a["ret"] < b["inv"] and rank.get(a["val"], -1) > rank.get(b["val"], 10 ** 9):
                    world.violate(PROP, "not-linearizable", f"{ctx}: {kind} call returning {a['val']} completed before the call returning "
                                  f"{b['val']} was invoked, but {b['val']} precedes it in the cycle", sig="not-linearizable:order")
        if got and min(got) < max(got) and any(rank[x] > rank[y] for x, y in zip(got, got[1:]) if x in rank and y in rank):
            res.probe("completion_order_differs_from_value_order")
        if len(got) and want[-1] < want[0]:
            res.probe("wrap_crossed_" + kind)
    if world.sched.preemptions:
        res.probe("preempted_inside_udp_socket")
    if any(getattr(sock._lock, "contended", 0) for _ in [0]):
        res.probe("lock_contended")
    sock.close()
    res.nontrivial = len(calls) >= 2
    res.shape = format(mix(0, repr([(c["caller"], c["kind"], c["val"]) for c in calls])), "x")
    res.sample = {"kind": "concurrent", "callers": ncall, "values": [(c["caller"], c["kind"], c["val"]) for c in calls[:12]], "preemptions": world.sched.preemptions}


# -- (2) single-caller walk over every counter state ---------------------------------------------------------------
def walk(world, counter_obj, label: str) -> None:
    res = world.result
    vals = {"proto": 0, "cmd": 191}
    seen = {"proto": set(), "cmd": set()}
    for i, op in enumerate(world.case["plan"]):
        command = op["op"] == "cmd"
        k = "cmd" if command else "proto"
        v = counter_obj.get_and_increment_sequence_counter(command)
        want = succ(vals[k], command)
        if v == 0:
            world.violate(PROP, "zero-sequence", f"{label}: draw #{i} returned 0")
        if v != want:
            world.violate(PROP, "not-successor", f"{label}: draw #{i} of kind {k} returned {v} after {vals[k]}; successor is {want}",
                          sig=f"not-successor:{label}:{k}")
        vals[k] = v
        seen[k].add(v)
    if seen["proto"] == set(range(1, 192)):
        res.probe("full_protocol_cycle")
    if seen["cmd"] == set(range(192, 256)):
        res.probe("full_command_cycle")
    res.stats["counter_states_seen"] = len(seen["proto"]) + len(seen["cmd"])
    res.nontrivial = True
    res.faultfree = True
    res.shape = format(mix(0, repr([o["op"] for o in world.case["plan"][:64]])), "x")
    res.sample = {"kind": label, "draws": len(world.case["plan"]), "protocol_values_seen": len(seen["proto"]), "command_values_seen": len(seen["cmd"])}


def walk_sync(world: WorldT) -> None:
    from geckolib.driver import GeckoUdpSocket

    walk(world, GeckoUdpSocket(), "threaded")


async def walk_async(world: WorldA) -> None:
    from geckolib.driver import GeckoAsyncUdpProtocol

    walk(world, GeckoAsyncUdpProtocol(None, None), "async")


# -- (3) wire monitors -----------------------------------------------------------------------------------------------
async def wire_async(world: WorldA) -> None:
    from sim.system import System

    res = world.result
    world.net.healed = True
    sysm = System(world, record_queues=False, record_calls=False, record_installs=False)
    model = sysm.peer.sim
    async with sysm.man as man:
        await sysm.wait_connected()
        lossy = bool(world.cfg.get("lossy"))
        if lossy:
            world.net.healed = False
        base = world.now()
        for op in world.case["plan"]:
            wait = base + op["t"] - world.now()
            if wait > 0:
                await asyncio.sleep(wait)
            spa = sysm.spa
            if spa is None or not spa.is_connected:
                if lossy:
                    res.probe("op_skipped_not_connected")
                    continue
                await sysm.wait_connected(cap=300)
                spa = sysm.spa
            try:
                k = op["op"]
                if k == "press":
                    await spa.async_press(21 + op["arg"] % 2)
                elif k == "set":
                    await spa.struct.async_set_value(700 + op["arg"] % 30, 1 + op["arg"] % 2, op["arg"] % 200)
                elif k == "setwc":
                    await spa.async_set_watercare(op["arg"] % 5)
                elif k == "getwc":
                    await spa.async_get_watercare()
                elif k == "remind":
                    await spa.async_get_reminders()
                elif k == "statp":
                    model.emit_statp([(600 + op["arg"] % 100, bytes([op["arg"] % 256, 1]))])
                elif k == "reset":
                    await man.async_reset()
                    res.probe("new_connection")
            except Exception:
                res.probe("op_raised")
        await asyncio.sleep(2.0)
    check_wire(world, res, "async")
    res.nontrivial = res.stats.get("wire_checked", 0) > 50
    res.faultfree = not lossy
    res.shape = format(mix(0, repr([o["op"] for o in world.case["plan"]])), "x")
    res.sample = {"kind": "wire-async", "lossy": lossy, "datagrams_checked": res.stats.get("wire_checked"), "spack": res.stats.get("spack_on_wire"), "ops": len(world.case["plan"])}


def wire_sync(world: WorldT) -> None:
    import os

    from geckolib import GeckoConstants
    from geckolib.spa_descriptor import GeckoSpaDescriptor

    res = world.result
    cfg = world.cfg
    world.net.healed = True
    with world.host(SPA_IP):
        sim = make_simulator(model_spa_class())
        sim.set_snapshot(load_snapshot(os.path.join(repo_root(), "tests", "snapshots", cfg["snapshot"])))
        sim.do_start("")
    desc = GeckoSpaDescriptor(b"IOSverif-T", b"SPA01:02:03:04:05:06", "Udp Test Spa", (SPA_IP, SPA_PORT))
    # (pre-emption and descheduling start once the connection stands: this scenario is about the traffic of a connected spa)
    preempt_p, world.sched.preempt_p = world.sched.preempt_p, 0.0
    facade = desc.get_facade(False)
    if not world.wait_until(lambda: facade.is_connected, 44):
        raise HarnessError("blocking facade did not connect on a benign network")
    world.sleep(1.0)
    world.sched.preempt_p = preempt_p
    lossy = bool(cfg.get("lossy"))
    if lossy:
        # more requests have been made on this connection (numbers drawn through the counter's own entry point), then the network gets lossy
        spa0 = facade.spa
        guard = 0
        while guard < 400:
            guard += 1
            if spa0.get_and_increment_sequence_counter(False) >= cfg["advance_protocol_to"]:
                break
        world.net.healed = False
        res.probe("threaded_wire_lossy_near_wrap")
    # the blocking facade builds its device lists from a set(): sort, so that the harness' choice does not depend on PYTHONHASHSEED
    switches = sorted(list(facade.blowers) + list(facade.lights), key=lambda d: d.key)
    pumps = sorted(facade.pumps, key=lambda d: d.key)
    for op in world.case["plan"]:
        world.sleep(op["gap"])
        try:
            k = op["op"]
            if k == "pump_mode" and pumps:
                p = pumps[op["arg"] % len(pumps)]
                p.set_mode(p.modes[op["arg"] % len(p.modes)])
                res.probe("sync_set_value")
            elif k == "switch" and switches:
                s = switches[op["arg"] % len(switches)]
                (s.turn_on if op["arg"] % 2 else s.turn_off)()
                res.probe("sync_key_press")
            elif k == "eco" and facade.eco_mode is not None:
                (facade.eco_mode.turn_on if op["arg"] % 2 else facade.eco_mode.turn_off)()
                res.probe("sync_set_value")
            elif k == "watercare":
                facade.water_care.set_mode(op["arg"] % 5)
            elif k == "temp" and facade.water_heater.is_present:
                facade.water_heater.set_target_temperature(facade.water_heater.min_temp + op["arg"] % 10)
                res.probe("sync_set_value")
            elif k == "press":
                facade.spa.press(21 + op["arg"] % 2)
                res.probe("sync_key_press")
        except Exception as e:
            res.probe("op_raised:" + type(e).__name__)
    world.sleep(2.0)
    world.net.healed = True
    facade.complete()
    sim._socket.close()
    check_wire(world, res, "threaded")
    res.nontrivial = res.stats.get("wire_checked", 0) > 10
    res.faultfree = not lossy
    res.shape = format(mix(0, repr([o["op"] for o in world.case["plan"]])), "x")
    res.sample = {"kind": "wire-sync", "datagrams_checked": res.stats.get("wire_checked"), "spack": res.stats.get("spack_on_wire"), "ops": len(world.case["plan"])}


def run_case(case: Dict[str, Any], replay: Optional[Dict[str, Any]] = None, keep_log: bool = False) -> RunResult:
    kind = case["cfg"]["kind"]
    if case["cfg"]["world"] == "T":
        fn = {"concurrent": concurrent, "walk-sync": walk_sync, "wire-sync": wire_sync}[kind]
        return WorldT(case, replay, keep_log=keep_log).run(fn)
    fn = {"walk-async": walk_async, "wire-async": wire_async}[kind]
    return WorldA(case, replay, keep_log=keep_log).run(fn)


# ---------------------------------------------------------------------------------------------------
BUDGET = {"quick": 45, "thorough": 600}
RULE = ("Three parts, all seeded. (1) concurrent: 2-6 real caller threads draw counters of both kinds on one threaded socket (mixed with "
        "queue_send / add+remove handler so the shared lock is contended) under line-level pre-emption inside udp_socket.py, the counters "
        "first advanced to just below a wrap; invoke/return carry the global event number; oracle = linearizability against fetch-and-"
        "increment (values are exactly the next successors, once each; real-time order respected). (2) walk: a single caller draws two full "
        "cycles of each kind under a drawn interleaving of kinds, on the threaded socket and on the async protocol (every reachable counter "
        "state). (3) wire: the full async client (70-110 commands/queries + STATP acknowledgements over minutes of refresh/facade traffic, "
        "so both cycles wrap on the wire; occasional reset = new connection) and the full blocking facade (20-80 set-value / key-press / "
        "watercare commands) with every client datagram's sequence byte checked. Non-trivial = at least two concurrent draws / any walk / "
        ">50 (async) or >10 (threaded) datagrams checked; distinct = distinct event-log digest.")
SHAPE_MEASURE = "hash of (caller, kind, value) triples (concurrent) / of the drawn kind sequence (walk) / of the command sequence (wire)"
COMPONENTS = {
    "real": ["GeckoUdpSocket.get_and_increment_sequence_counter + lock + engine thread", "GeckoAsyncUdpProtocol.get_and_increment_sequence_counter",
             "every request factory of GeckoAsyncSpa and GeckoSpa / automation classes", "real OS threads (parked), pre-empted at line events"],
    "stub": ["thread scheduling -> baton scheduler with sys.settrace line pre-emption", "sockets/clock", "spa application semantics -> ModelSpa"],
}
ASSUMPTIONS = [
    "fewer than one full cycle is drawn concurrently, so ranks in the cycle are unambiguous",
    "on one async connection draw and send happen in one callback, so wire order is draw order",
]
PROBES = ["wrap_crossed_proto", "wrap_crossed_cmd", "preempted_inside_udp_socket", "lock_contended", "full_protocol_cycle", "full_command_cycle",
          "wrap_on_wire_proto", "wrap_on_wire_cmd", "sync_set_value", "sync_key_press", "new_connection"]
N_QUICK = 3000


def jobs(tier: str, base_seed: int):
    if tier == "quick":
        for i in range(0, N_QUICK, 20):
            yield {"kind": "seeded", "first": i, "count": 20, "mandatory": True}
    else:
        i = 0
        while True:
            yield {"kind": "seeded", "first": i, "count": 20}
            i += 20


def job_cases(job, tier: str, base_seed: int):
    from sim.driver import run_seed

    for i in range(job["first"], job["first"] + job["count"]):
        c = gen_case(run_seed(PROP, base_seed, i), tier, i)
        c["subspace"] = "part:" + c["cfg"]["kind"]
        yield c
