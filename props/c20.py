"""C20 — threaded engine: FIFO paced sends, first-match dispatch, bounded handler life, handshake under loss."""

from __future__ import annotations

import random
from typing import Any, Dict, List, Optional

from sim.core import HarnessError, RunResult, mix
from sim.net import CLIENT_IP, SPA_IP, SPA_PORT, inner_of
from sim.peers import load_snapshot, make_simulator, repo_root, snapshot_files
from sim.worldt import WorldT

PROP = "C20"
LEVEL = "exploration"
SUBS = ["sends", "dispatch", "life", "handshake"]
THROTTLE = 1.0 / 50
ITER = 0.05


def gen_case(seed: int, tier: str, index: int) -> Dict[str, Any]:
    rng = random.Random(mix(seed, "c20.case"))
    sub = SUBS[index % len(SUBS)]
    sched = {"cost_p": rng.choice([0.0, 0.2]), "cost_max": 0.003}
    if rng.random() < 0.25:
        sched.update(wall_jump_p=0.01, wall_jump_max=rng.choice([0.5, 60.0, 86400.0]))      # the wall clock steps; monotonic time does not
    cfg: Dict[str, Any] = {"sub": sub, "net": {"lat_min": 0.001, "lat_max": 0.004}, "sched": sched}
    plan: List[Dict[str, Any]] = []
    if sub == "sends":
        sched["preempt_p"] = rng.choice([0.0, 0.05, 0.3])
        ncall = rng.choice([1, 1, 2, 3, 5])
        cfg["callers"] = ncall
        cfg["echo"] = rng.choice([0, 0, 1, 3])      # incoming datagrams per send: makes the engine iterate without waiting
        for c in range(ncall):
            t = 0.0
            for j in range(rng.randint(1, 25)):
                t += rng.choice([0.0, 0.0, 0.001, 0.01, 0.03, 0.2])
                plan.append({"op": "send", "caller": c, "j": j, "t": round(t, 4)})
    elif sub == "dispatch":
        # registrations and removals come from the caller's thread while the engine tidies its handler list: pre-empt inside udp_socket.py
        sched["preempt_p"] = rng.choice([0.0, 0.1, 0.3, 0.6])
        if sched["preempt_p"]:
            # pre-empted lines cost virtual time, so that the caller's thread can wake up in the middle of an engine iteration
            sched.update(cost_p=0.5, cost_max=0.002)
        prefixes = [b"AA", b"AAB", b"AB", b"B", b"", b"ABC", b"A", b"BB"]
        k = rng.randint(2, 7)
        for i in range(k):
            plan.append({"op": "reg", "id": i, "prefixes": [prefixes[rng.randrange(len(prefixes))].decode() for _ in range(rng.randint(1, 2))],
                         "raises": rng.choice(["", "", "", "handle", "handled"])})
        nid = k
        for _ in range(rng.randint(5, 40)):
            r = rng.random()
            if r < 0.12:
                plan.append({"op": "reg", "id": nid, "prefixes": [prefixes[rng.randrange(len(prefixes))].decode()], "raises": rng.choice(["", "", "handle", "handled"]),
                             "front": False})
                nid += 1
            elif r < 0.2:
                plan.append({"op": "unreg", "which": rng.randrange(16)})
                if rng.random() < 0.6:
                    # ... and a new handler is registered while the engine is still removing that one
                    plan.append({"op": "reg", "id": nid, "prefixes": [prefixes[rng.randrange(len(prefixes))].decode()], "raises": "", "front": False,
                                 "after": rng.choice([0.0, 0.01, 0.049, 0.05, 0.051, round(rng.uniform(0.0, 0.06), 4), round(rng.uniform(0.0, 0.06), 4)])})
                    nid += 1
            elif r < 0.3:
                # a one-shot handler (removed by the engine's tidy-up once it has answered) takes a datagram; while the engine is tidying,
                # the caller's thread registers another handler, which a later datagram must still reach
                plan.append({"op": "oneshot", "id": nid, "id2": nid + 1, "tag": f"Y{nid}", "tag2": f"Z{nid}",
                             "after": round(0.001 + rng.choice([0.0, 0.0005, 0.001, rng.uniform(0.0, 0.004), rng.uniform(0.0, 0.01)]), 5)})
                nid += 2
            else:
                burst = rng.choice([1, 1, 1, 2, 5])
                plan.append({"op": "dgram", "datas": ["".join(rng.choice("ABC") for _ in range(rng.randint(1, 4))) + f"#{len(plan)}.{b}.{rng.randrange(10 ** 6)}" for b in range(burst)]})
        # a handler whose acceptance test itself fails on some input (datagrams marked "!"): which handler such a datagram goes to is not
        # judged, but the engine must survive it and the datagrams after it are dispatched as ever
        rng_ch = random.Random(mix(seed, "c20.can_handle"))
        if rng_ch.random() < 0.35:
            regs = [o for o in plan if o["op"] == "reg"]
            rng_ch.choice(regs)["raises"] = "can_handle"
            for o in plan:
                if o["op"] == "dgram" and rng_ch.random() < 0.4:
                    o["datas"] = [d + "!" if rng_ch.random() < 0.6 else d for d in o["datas"]]
    elif sub == "life":
        T = rng.choice([0.15, 0.3, 0.5, 1.0, 2.0, 4.0])
        N = rng.choice([0, 1, 2, 3, 5, 10])
        if random.Random(mix(seed, "c20.first-send")).random() < 0.25:
            cfg["first_send_fails"] = True
        answer = None
        if rng.random() < 0.7:
            if rng.random() < 0.5:
                # aim at the engine iteration in which a timeout expires (the answer races the retry)
                k = rng.randint(1, N + 1)
                answer = round(max(0.0, k * T + rng.choice([-0.045, -0.03, -0.015, -0.005, 0.0, 0.005, 0.02, 0.045]) + rng.choice([0.0, 0.05])), 3)
            else:
                answer = round(rng.uniform(0.0, (N + 1) * T * 1.1), 3)
        # the request is created at a drawn phase of the engine's 50 ms receive cycle, so that a timeout can expire in the middle
        # of a blocking receive (and an answer can race the retry)
        cfg.update(T=T, N=N, answer=answer, answer_dup=rng.random() < 0.2, competing=rng.random() < 0.3,
                   phase=rng.choice([0.0, 0.0, 0.01, 0.025, 0.04, round(rng.uniform(0, 0.05), 4)]))
        if answer is None and T <= 1.0 and N >= 1 and rng.random() < 0.5:
            # a burst of other sends queued while the request is outstanding: behind the 50/s throttle a retransmission then waits
            # longer than one timeout, so the next retry is queued while the previous one has not left yet
            cfg["backlog"] = {"n": int(T * 50 * rng.choice([1.2, 2.0, 3.5])) + 2, "at": round(rng.uniform(0.0, N * T), 3)}
    elif sub == "handshake":
        rng_p = random.Random(mix(seed, "c20.preempt-caller"))
        if rng_p.random() < 0.5:
            sched.update(preempt_p=rng_p.choice([0.1, 0.3, 0.6]), preempt_files=["/spa.py"], preempt_threads=["HARNESS", "main", "Main"],
                         preempt_stall_p=rng_p.choice([0.3, 0.7]), preempt_stall_max=rng_p.choice([0.12, 0.3]))
        T = rng.choice([0.5, 1, 2])
        cfg["tables"] = {"idle": {"PROTOCOL_TIMEOUT_IN_SECONDS": T, "PROTOCOL_RETRY_COUNT": rng.choice([4, 10]), "PING_FREQUENCY_IN_SECONDS": rng.choice([2, 60])}}
        budget = cfg["tables"]["idle"]["PROTOCOL_RETRY_COUNT"]
        rules = []
        total = 0
        # tuning knob: after how long the polling caller is told "took too long to connect" (shipped 45 s); the handshake itself goes on
        # for as long as every step stays inside its own retry budget, so long loss patterns run past that moment
        long_pattern = rng.random() < 0.3
        deep = False
        if long_pattern:
            # (mostly a small limit, so that a handful of lost attempts already runs past it; now and then the shipped 45 s with deep patterns)
            deep = rng.random() < 0.12
            cfg["consts"] = {"CONNECTION_TIMEOUT_IN_SECONDS": 45 if deep else rng.choice([10, 3, 3])}
            cfg["long_pattern"] = True
        for verb_req, verb_rep in (("AVERS", "SVERS"), ("CURCH", "CHCUR"), ("SFILE", "FILES")):
            k = rng.choice([0, 0, 1, 2, 3]) if not long_pattern else (rng.choice([0, 2, 3, budget - 1]) if deep else rng.choice([1, 2, 3, 3]))
            k = min(k, budget - 1)
            for _ in range(k):
                if rng.random() < 0.5:
                    rules.append({"verb": verb_req, "dir": "c2s", "n": 1})
                else:
                    rules.append({"verb": verb_rep, "dir": "s2c", "n": 1})
            total += k
        kc = min(rng.choice([0, 0, 1, 2]), budget - 1)
        for c in range(kc):
            if rng.random() < 0.3:
                rules.append({"verb": "STATU", "dir": "c2s", "n": 1})
            else:
                # lose some segments of chain number c: segment `seg`, skipping the ones of earlier chains
                for seg in rng.sample(range(27), rng.choice([1, 1, 2, 5])):
                    rules.append({"verb": "STATV", "dir": "s2c", "seg": seg, "skip": 0, "n": 1})
        total += kc
        if rng.random() < 0.3:
            # the simulator's own unreliability (it declines requests and single segments at random) instead of scripted network loss:
            # no bound on the number of attempts can be promised then, so only "connected implies an identical block" is judged
            rules = []
            cfg["sim_reliability"] = rng.choice([0.95, 0.98, 0.99])
        if not cfg.get("sim_reliability") and rng.random() < 0.15:
            # peer data: the spa reports a config or log version this library has no definition for -- the handshake cannot complete,
            # but the failing handler must not take the engine down
            rules = []
            cfg["unknown_version"] = rng.choice(["config", "log"])
        if cfg.get("sim_reliability") or cfg.get("unknown_version"):
            cfg.pop("consts", None)
            cfg.pop("long_pattern", None)
        cfg["net"]["rules"] = rules
        cfg.update(T=T, lost_attempts=total, snapshot=snapshot_files()[rng.randrange(len(snapshot_files()))].split("/")[-1])
    plan.sort(key=lambda o: (o.get("t", 0), o.get("caller", 0), o.get("j", 0))) if sub == "sends" else None
    return {"property": PROP, "world": "T", "seed": seed, "cfg": cfg, "plan": plan}


class Sink:
    """A passive endpoint on SimNet that records what arrives (and can answer)."""

    def __init__(self, world: WorldT, addr):
        self.world = world
        self.addr = addr
        self.arrivals: List[Any] = []
        self.on_arrival = None
        world.net.bind(addr, self)

    def deliver(self, data, src, rec):
        self.arrivals.append((self.world.now(), data, src))
        if self.on_arrival is not None:
            self.on_arrival(data, src)


def handler_classes():
    from geckolib.driver import GeckoUdpProtocolHandler

    class TagHandler(GeckoUdpProtocolHandler):
        def can_handle(self, received_bytes, sender):
            return False

        def handle(self, received_bytes, sender):
            pass

    class PrefixHandler(GeckoUdpProtocolHandler):
        def __init__(self, hid, prefixes, raises, record, **kw):
            super().__init__(**kw)
            self.hid = hid
            self.prefixes = prefixes
            self.raises = raises
            self.record = record
            self.remove_on_answer = kw.get("remove_on_answer", False)

        def can_handle(self, received_bytes, sender):
            if self.raises == "can_handle" and received_bytes.endswith(b"!"):
                self.record.append(("can_handle_raised", self.hid, received_bytes))
                raise ValueError("harness handler raises in can_handle")
            return any(received_bytes.startswith(p) for p in self.prefixes)

        def handle(self, received_bytes, sender):
            self.record.append(("handle", self.hid, received_bytes))
            if self.remove_on_answer:
                self._should_remove_handler = True
            if self.raises == "handle":
                raise ValueError("harness handler raises in handle")

        def handled(self, sender):
            self.record.append(("handled", self.hid))
            if self.raises == "handled":
                raise ValueError("harness handler raises in handled")
            super().handled(sender)

    return TagHandler, PrefixHandler


def scenario(world: WorldT) -> None:
    sub = world.cfg["sub"]
    {"sends": sub_sends, "dispatch": sub_dispatch, "life": sub_life, "handshake": sub_handshake}[sub](world)


# -- (a) sends ----------------------------------------------------------------------------------------------
def sub_sends(world: WorldT) -> None:
    from geckolib.driver import GeckoUdpSocket

    TagHandler, _ = handler_classes()
    res = world.result
    sink = Sink(world, ("10.0.0.50", 5000))
    sock = GeckoUdpSocket()
    sock.open()
    echo = int(world.cfg.get("echo", 0))
    if echo:
        def on_arrival(data, src):
            for k in range(echo):
                world.net.inject(sink.addr, src, b"ECHO-%d-" % k + data, delay=0.001 + 0.004 * k, who="echo")
        sink.on_arrival = on_arrival
        res.probe("incoming_traffic_while_sending")
    plan = world.case["plan"]
    ncall = world.cfg["callers"]
    calls: List[Dict[str, Any]] = []
    done = {"n": 0}

    def caller(c: int):
        t0 = world.now()
        for op in [o for o in plan if o["caller"] == c]:
            wait = t0 + op["t"] - world.now()
            if wait > 0:
                world.sleep(wait)
            tag = f"TAG-{c}-{op['j']}".encode()
            rec = {"caller": c, "j": op["j"], "tag": tag, "inv": world.log.add("send-invoke", c, op["j"])}
            calls.append(rec)
            sock.queue_send(TagHandler(send_bytes=tag), sink.addr)
            rec["ret"] = world.log.add("send-return", c, op["j"])
        done["n"] += 1

    for c in range(ncall):
        world.sched.spawn(lambda c=c: caller(c), f"HARNESS:caller-{c}")
    world.wait_until(lambda: done["n"] == ncall, 600)
    total = len(plan)
    world.wait_until(lambda: len([r for r in world.net.history if r.dst == sink.addr]) >= total, total * 0.1 + 5)
    world.sleep(0.5)
    wire = [r for r in world.net.history if r.dst == sink.addr]
    tags = [r.data for r in wire]
    ctx = f"{ncall} caller(s), {total} sends, preempt_p={world.cfg['sched'].get('preempt_p')}"
    want = sorted(c["tag"] for c in calls)
    if sorted(tags) != want:
        missing = [t for t in want if t not in tags]
        extra = [t for t in tags if tags.count(t) > 1]
        world.violate(PROP, "send-lost-or-doubled", f"{ctx}: wire has {len(tags)} datagrams for {len(want)} queued sends; missing {missing[:4]}, doubled {sorted(set(extra))[:4]}")
    for c in range(ncall):
        mine = [t for t in tags if t.startswith(f"TAG-{c}-".encode())]
        order = [int(t.split(b"-")[2]) for t in mine]
        if order != sorted(order):
            world.violate(PROP, "send-order", f"{ctx}: caller {c}'s sends left in order {order[:12]}, queued in program order")
    pos = {t: i for i, t in enumerate(tags)}
    for a in calls:
        for b in calls:
            if a["ret"] < b["inv"] and pos[a["tag"]] > pos[b["tag"]]:
                world.violate(PROP, "send-order", f"{ctx}: {a['tag']} was queued (returned) before {b['tag']} was invoked but left after it")
    for x, y in zip(wire, wire[1:]):
        if y.t - x.t < THROTTLE - 1e-6:
            world.violate(PROP, "throttle", f"{ctx}: datagrams {x.data!r} and {y.data!r} left {y.t - x.t:.4f}s apart, throttle is {THROTTLE}s")
    if ncall >= 2:
        res.probe("multi_caller")
    if world.sched.preemptions:
        res.probe("preempted_inside_udp_socket")
    sock.close()
    res.nontrivial = total > 1
    res.shape = format(mix(0, repr(tags)), "x")
    res.sample = {"sub": "sends", "callers": ncall, "sends": total, "wire_order": [t.decode() for t in tags[:10]]}


# -- (b) dispatch --------------------------------------------------------------------------------------------
def sub_dispatch(world: WorldT) -> None:
    from geckolib.driver import GeckoUdpSocket

    _, PrefixHandler = handler_classes()
    res = world.result
    record: List[Any] = []
    sock = GeckoUdpSocket()
    sock.open()
    sock.bind()          # binds the fake socket to port 10022 on the client host
    me = (CLIENT_IP, SPA_PORT)
    src = ("10.0.0.60", 6000)
    model: List[Any] = []          # reference registration list: (id, prefixes, raises, handler)
    expected: List[Any] = []
    ndg = 0
    for op in world.case["plan"]:
        if op["op"] == "reg":
            if op.get("after"):
                world.sleep(op["after"])
            h = PrefixHandler(op["id"], [p.encode() for p in op["prefixes"]], op["raises"], record)
            sock.add_receive_handler(h)
            model.append((op["id"], [p.encode() for p in op["prefixes"]], op["raises"], h))
        elif op["op"] == "unreg":
            if model:
                hid, _, _, h = model.pop(op["which"] % len(model))
                try:
                    sock.remove_receive_handler(h)
                except ValueError as e:
                    world.violate(PROP, "handler-lost", f"handler {hid} was registered and never removed, yet the engine no longer has it "
                                  f"(remove_receive_handler raised {e!r})", sig="handler-lost:registration-disappeared")
                res.probe("handler_removed_while_running")
        elif op["op"] == "oneshot":
            def first_for(data):
                return next(((hid, raises) for hid, pref, raises, h in model if any(data.startswith(p) for p in pref)), None)
            h1 = PrefixHandler(op["id"], [op["tag"].encode()], "", record)
            h1.remove_on_answer = True
            sock.add_receive_handler(h1)
            model.append((op["id"], [op["tag"].encode()], "", h1))
            d1 = (op["tag"] + f"#{ndg}").encode()
            expected.append((d1, first_for(d1)))
            world.net.inject(src, me, d1, delay=0.001, who="dgram")
            ndg += 1
            if expected[-1][1] is not None and expected[-1][1][0] == op["id"]:
                model[:] = [m for m in model if m[0] != op["id"]]       # it answers, the tidy-up of that iteration removes it
            world.sleep(op["after"])
            h2 = PrefixHandler(op["id2"], [op["tag2"].encode()], "", record)
            sock.add_receive_handler(h2)
            model.append((op["id2"], [op["tag2"].encode()], "", h2))
            res.probe("registered_while_engine_tidies_up")
            world.wait_until(lambda: not sock._socket.inbox and world.net.in_flight() == 0, 5)
            world.sleep(0.15)
            d2 = (op["tag2"] + f"#{ndg}").encode()
            expected.append((d2, first_for(d2)))
            world.net.inject(src, me, d2, delay=0.001, who="dgram")
            ndg += 1
            world.wait_until(lambda: not sock._socket.inbox and world.net.in_flight() == 0, 5)
            world.sleep(0.15)
        elif op["op"] == "dgram":
            mark = len(record)
            for d in op["datas"]:
                data = d.encode()
                world.net.inject(src, me, data, delay=0.001, who="dgram")
                ndg += 1
                first = next(((hid, raises) for hid, pref, raises, h in model if any(data.startswith(p) for p in pref)), None)
                if data.endswith(b"!"):
                    # does the search reach the handler whose test fails on this datagram before it finds an acceptor?
                    for hid, pref, raises, h in model:
                        if raises == "can_handle":
                            first = ("unjudged", "can_handle")
                            break
                        if any(data.startswith(p) for p in pref):
                            break
                expected.append((data, first))
            world.wait_until(lambda: not sock._socket.inbox and world.net.in_flight() == 0, 5)
            world.sleep(0.12 + 0.06 * len(op["datas"]))
    world.sleep(0.3)
    # what the engine did, per datagram, in order
    got: List[Any] = []
    i = 0
    while i < len(record):
        e = record[i]
        if e[0] == "handle":
            got.append({"data": e[2], "hid": e[1], "handled": False})
        elif e[0] == "handled" and got and got[-1]["hid"] == e[1]:
            got[-1]["handled"] = True
        i += 1
    gi = 0
    for data, first in expected:
        ctx = f"datagram {data!r}, registration order {[(hid, [p.decode() for p in pref]) for hid, pref, _, _ in model][:8]}"
        takers = [g for g in got if g["data"] == data]
        if first is not None and first[0] == "unjudged":
            if any(e[0] == "can_handle_raised" and e[2] == data for e in record):
                res.probe("handler_raised_in_can_handle")
            if len(takers) > 1:
                world.violate(PROP, "dispatch-twice", f"{ctx}: handled by {[t['hid'] for t in takers]}")
            continue
        if first is None:
            if takers:
                world.violate(PROP, "dispatch-wrong-handler", f"{ctx}: no registered handler accepts it, yet handler {takers[0]['hid']} handled it")
            res.probe("no_handler_accepts")
            continue
        if len(takers) == 0:
            sig = "dispatch-lost:after-handler-exception" if any(r for _, _, r, _ in model if r) else "dispatch-lost"
            world.violate(PROP, "dispatch-lost", f"{ctx}: expected handler {first[0]} to handle it, nobody did (engine thread alive: "
                          f"{sock._thread.is_alive() if sock._thread else None})", sig=sig)
        if len(takers) > 1:
            world.violate(PROP, "dispatch-twice", f"{ctx}: handled by {[t['hid'] for t in takers]}")
        if takers[0]["hid"] != first[0]:
            world.violate(PROP, "dispatch-wrong-handler", f"{ctx}: handled by {takers[0]['hid']}, the first registered handler that accepts it is {first[0]}")
        if first[1] == "handle":
            res.probe("handler_raised_in_handle")
        elif first[1] == "handled":
            res.probe("handler_raised_in_handled")
    th = sock._thread
    if th is None or not th.is_alive():
        world.violate(PROP, "engine-died", f"the engine thread is not alive after dispatching {ndg} datagrams: {world.sched.thread_errors}")
    sock.close()
    res.nontrivial = ndg > 0
    res.shape = format(mix(0, repr([(d, f) for d, f in expected])), "x")
    res.sample = {"sub": "dispatch", "datagrams": ndg, "handlers": len(model), "first": [(d.decode(), f) for d, f in expected[:5]]}


# -- (c) handler life ----------------------------------------------------------------------------------------------
def sub_life(world: WorldT) -> None:
    from geckolib.driver import GeckoUdpProtocolHandler, GeckoUdpSocket

    _, PrefixHandler = handler_classes()
    res = world.result
    cfg = world.cfg
    T, N, answer = cfg["T"], cfg["N"], cfg["answer"]
    record: List[Any] = []
    peer = Sink(world, ("10.0.0.70", 7000))
    sock = GeckoUdpSocket()
    sock.open()
    sock.bind()
    me = (CLIENT_IP, SPA_PORT)
    if cfg.get("phase"):
        world.sleep(cfg["phase"])
    h = PrefixHandler(1, [b"REPLY"], "", record, send_bytes=b"REQUEST-1", timeout=T, retry_count=N,
                      on_retry_failed=GeckoUdpProtocolHandler._default_retry_failed_handler)
    h.remove_on_answer = True
    if cfg.get("competing"):
        other = PrefixHandler(2, [b"OTHER"], "", record)
        sock.add_receive_handler(other)
    t0 = world.now()
    gone_at: Dict[str, Any] = {"t": None}
    seen = {"in": False}

    def watch() -> None:      # runs in the scheduler after every step: when does the handler leave the list?
        present = h in sock._receive_handlers
        if present:
            seen["in"] = True
        elif seen["in"] and gone_at["t"] is None:
            gone_at["t"] = world.now()
    world.sched.monitors.append(watch)
    sock.add_receive_handler(h)
    if cfg.get("first_send_fails"):
        # the very first sendto() of the request fails (a transient OSError: the datagram never leaves); it counts as a transmission that
        # got lost, and the retransmissions follow as ever
        world.net.cfg["blocking_send_error_p"] = 1.0

        def first_gone() -> None:
            if world.net.cfg.get("blocking_send_error_p") and any(r.data == b"REQUEST-1" and r.fate == "send_error" for r in world.net.history[-4:]):
                world.net.cfg["blocking_send_error_p"] = 0.0
        world.sched.monitors.append(first_gone)
        res.probe("first_send_of_a_request_fails")
    sock.queue_send(h, peer.addr)
    answer_rec = None
    backlog = cfg.get("backlog")
    if backlog:
        world.sleep(backlog["at"])
        for i in range(backlog["n"]):
            sock.queue_send(PrefixHandler(100 + i, [b"NEVER"], "", record, send_bytes=b"FILL-%d" % i), peer.addr)
        res.probe("backlog_longer_than_timeout")
    if answer is not None:
        world.sleep(answer)
        answer_rec = world.net.inject(peer.addr, me, b"REPLY-1", delay=0.001, who="answer")
        if cfg.get("answer_dup"):
            world.net.inject(peer.addr, me, b"REPLY-1", delay=0.03, who="answer")
    world.wait_until(lambda: gone_at["t"] is not None, (N + 2) * T + 5 + (backlog["n"] * THROTTLE * 2 if backlog else 0), step=0.01)
    world.sleep(T + 0.5)
    if backlog:
        world.wait_until(lambda: not sock._send_handlers, 60, step=0.05)
        world.sleep(0.2)
    tx = [r for r in world.net.history if r.dst == peer.addr and r.data == b"REQUEST-1"]
    handled = [e for e in record if e[0] == "handle" and e[1] == 1]
    ctx = f"T={T} N={N} answer_at={answer} competing={cfg.get('competing')}"
    if gone_at["t"] is None:
        world.violate(PROP, "handler-never-removed", f"{ctx}: request handler still registered {(N + 2) * T + 5:.1f}s after it was added")
    first_tx = tx[0].t if tx else None
    # was the answer dispatched while the handler was still registered?
    answered_at = None
    if handled:
        # the time of dispatch: first log entry is not timed, so use the arrival of the answer + one iteration as the bound
        answered_at = t0 + answer
    if answered_at is None:
        res.probe("unanswered")
        if len(tx) != 1 + N:
            world.violate(PROP, "retransmission-count", f"{ctx}: {len(tx)} transmissions of an unanswered request, expected 1 + {N}",
                          sig="retransmission-count:" + ("more" if len(tx) > 1 + N else "fewer"))
        for a, b in zip(tx, tx[1:]) if not backlog else []:
            # (with a backlog the retransmissions wait in the queue: their spacing on the wire says nothing about the timeout)
            # the timeout runs from when the handler was created / the retry was queued; the datagram itself leaves up to
            # one engine iteration (+ throttle) later, so spacing on the wire may be that much shorter than T
            if b.t - a.t < T - 2 * ITER - THROTTLE - 1e-6:
                world.violate(PROP, "retry-before-timeout", f"{ctx}: retransmitted {b.t - a.t:.3f}s after the previous transmission")
            if b.t - a.t > T + 4 * ITER + 0.01:
                world.violate(PROP, "retry-late", f"{ctx}: retransmitted {b.t - a.t:.3f}s after the previous transmission (timeout {T}s + engine iterations)")
        if tx and gone_at["t"] is not None and not backlog:
            lim = tx[-1].t + T + 4 * ITER
            if gone_at["t"] > lim + 0.02:
                world.violate(PROP, "handler-removed-late", f"{ctx}: removed at {gone_at['t'] - t0:.3f}s, last transmission at {tx[-1].t - t0:.3f}s")
            if gone_at["t"] < tx[-1].t + T - 2 * ITER - THROTTLE - 1e-6:
                world.violate(PROP, "handler-removed-early", f"{ctx}: removed {gone_at['t'] - tx[-1].t:.3f}s after its last transmission, before its timeout")
    else:
        res.probe("answered")
        # a retry that was queued before the answer arrived leaves at the start of the engine's next iteration, i.e. before the
        # engine receives again; so any transmission after the answer was delivered to the socket was initiated after it
        rx_seq = answer_rec.deliveries[0][0] if answer_rec is not None and answer_rec.deliveries else None
        # (the very first transmission was queued by the caller itself; an "answer" that arrives before it does not stop it)
        late = [r for i, r in enumerate(tx) if rx_seq is not None and r.lseq > rx_seq and i >= 1]
        if late:
            res.probe("transmission_after_answer_seen")
        if late:
            world.violate(PROP, "transmission-after-answer", f"{ctx}: {len(late)} transmission(s) after the answer was dispatched "
                          f"(answer arrived at {answered_at - t0:.3f}s, transmissions at {[round(r.t - t0, 3) for r in tx]})")
        if gone_at["t"] is not None and gone_at["t"] > answered_at + 3 * ITER + 0.02:
            world.violate(PROP, "handler-removed-late", f"{ctx}: answered at {answered_at - t0:.3f}s but still registered until {gone_at['t'] - t0:.3f}s")
        if len(tx) > 1 + N:
            world.violate(PROP, "retransmission-count", f"{ctx}: {len(tx)} transmissions, more than 1 + {N}", sig="retransmission-count:more")
    if answer is not None and not handled:
        res.probe("answer_after_removal")
    sock.close()
    res.nontrivial = True
    res.shape = format(mix(0, repr((T, N, answer is not None, len(tx)))), "x")
    res.sample = {"sub": "life", "T": T, "N": N, "answer_at": answer, "transmissions": [round(r.t - t0, 3) for r in tx]}


# -- (d) handshake ---------------------------------------------------------------------------------------------------
def sub_handshake(world: WorldT) -> None:
    import os

    from geckolib.spa import GeckoSpa
    from geckolib.spa_descriptor import GeckoSpaDescriptor

    res = world.result
    cfg = world.cfg
    with world.host(SPA_IP):
        sim = make_simulator()
        sim.set_snapshot(load_snapshot(os.path.join(repo_root(), "tests", "snapshots", cfg["snapshot"])))
        sim.do_start("")
    unreliable = cfg.get("sim_reliability")
    if unreliable:
        sim._reliability = unreliable
    if cfg.get("unknown_version"):
        setattr(sim.snapshot, "_config_version" if cfg["unknown_version"] == "config" else "_log_version", 98)
        return unknown_version_handshake(world, sim)
    desc = GeckoSpaDescriptor(b"IOSverif-T", b"SPA01:02:03:04:05:06", "Udp Test Spa", (SPA_IP, SPA_PORT))
    spa = GeckoSpa(desc)
    t0 = world.now()
    # start_connect() runs in the caller's thread while the engine thread is already running: the caller may be pre-empted between any two of
    # its lines, and stay off the processor long enough for the engine to send what has been queued so far and receive the answer
    spa.start_connect()
    world.sched.preempt_p = 0.0
    T = cfg["T"]
    lost = cfg["lost_attempts"]
    bound = (lost + 1) * (T + 0.2) + 27 * 0.06 * (lost + 1) + 5.0
    state = {"err": None}

    def connected() -> bool:
        try:
            return spa.is_connected
        except RuntimeError as e:
            if cfg.get("long_pattern"):
                # "took too long to connect": what a polling caller is told after CONNECTION_TIMEOUT_IN_SECONDS; the handshake goes on
                res.probe("caller_told_too_long_while_the_handshake_goes_on")
                return False
            state["err"] = repr(e)
            return True
    ok = world.wait_until(connected, 44.0 if cfg.get("sim_reliability") else (min(bound, 600.0) if cfg.get("long_pattern") else min(bound, 44.0)), step=0.05)
    ctx = f"T={T} lost_attempts={lost} rules={cfg['net']['rules'][:6]} snapshot={cfg['snapshot']}"
    fired = res.faults.get("scripted_drop", 0)
    if unreliable and (state["err"] or not ok or not spa._is_connected):
        res.probe("unreliable_simulator_handshake_not_completed")
        spa.complete()
        sim._socket.close()
        res.nontrivial = False
        res.shape = "unreliable-incomplete"
        res.sample = {"sub": "handshake", "unreliable": unreliable, "connected": False}
        return
    if unreliable:
        res.probe("unreliable_simulator_handshake_completed")
    if state["err"] or not ok or not spa._is_connected:
        world.violate(PROP, "handshake-failed", f"{ctx}: not connected {world.now() - t0:.1f}s after start_connect (bound {bound:.1f}s, "
                      f"{fired} datagrams dropped by the script); error={state['err']}; thread errors={world.sched.thread_errors[:2]}")
    if spa.struct.status_block != sim.structure.status_block:
        diff = [i for i in range(1024) if spa.struct.status_block[i] != sim.structure.status_block[i]]
        world.violate(PROP, "handshake-block-mismatch", f"{ctx}: connected but the client block differs from the simulator's at {diff[:8]}")
    if not unreliable:
        # a step's request is transmitted once, plus once for every attempt of it the script lost (request or reply): an answered request is
        # not transmitted again
        for verb_req, verb_rep in (("AVERS", "SVERS"), ("CURCH", "CHCUR"), ("SFILE", "FILES")):
            lost_here = sum(int(r.get("n", 1)) for r in cfg["net"]["rules"] if r.get("verb") in (verb_req, verb_rep))
            sent = [r for r in world.net.history if r.verb == verb_req and r.src[0] != SPA_IP]
            if len(sent) != 1 + lost_here:
                world.violate(PROP, "retransmission-count", f"{ctx}: {verb_req} was transmitted {len(sent)} time(s) during the handshake, the script lost {lost_here} "
                              f"attempt(s) of that step (caller pre-empted {world.sched.preemptions} time(s) inside start_connect)",
                              sig="retransmission-count:handshake-step:" + ("more" if len(sent) > 1 + lost_here else "fewer"))
    if world.sched.preemptions:
        res.probe("caller_preempted_inside_start_connect")
    if fired:
        res.probe("handshake_with_losses")
    if any(r.get("verb") == "STATV" for r in cfg["net"]["rules"]) and fired:
        res.probe("segment_lost_during_handshake")
    world.sleep(1.0)
    spa.complete()
    sim._socket.close()
    res.nontrivial = fired > 0 or bool(unreliable)
    res.faultfree = not cfg["net"]["rules"] and not unreliable
    res.shape = format(mix(0, repr((cfg["net"]["rules"], T, unreliable, round(world.now() - t0, 1)))), "x")
    res.sample = {"sub": "handshake", "T": T, "lost_attempts": lost, "connected_after": round(world.now() - t0, 2), "dropped": fired}


def unknown_version_handshake(world: WorldT, sim) -> None:
    """The spa names a config/log version without a definition module: the config step's handler raises.  The engine must go on:
    queued sends still leave, received datagrams are still dispatched, no engine thread ends with an exception."""
    from geckolib.spa import GeckoSpa
    from geckolib.spa_descriptor import GeckoSpaDescriptor

    _, PrefixHandler = handler_classes()
    res = world.result
    cfg = world.cfg
    record: List[Any] = []
    desc = GeckoSpaDescriptor(b"IOSverif-T", b"SPA01:02:03:04:05:06", "Udp Test Spa", (SPA_IP, SPA_PORT))
    spa = GeckoSpa(desc)
    spa.start_connect()
    world.sleep(6.0)
    ctx = f"spa reports an unknown {cfg['unknown_version']} version (98), snapshot={cfg['snapshot']}"
    connected = False
    try:
        connected = bool(spa._is_connected)
    except Exception:
        pass
    if connected:
        world.violate(PROP, "handshake-block-mismatch", f"{ctx}: the client reports connected", sig="connected-with-unknown-version")
    # the engine is still serving: a send leaves, a datagram is dispatched
    peer = Sink(world, ("10.0.0.71", 7001))
    probe = PrefixHandler(1, [b"PROBE-REPLY"], "", record, send_bytes=b"PROBE-1")
    spa.add_receive_handler(probe)
    mark = len(world.net.history)
    spa.queue_send(probe, peer.addr)
    world.sleep(0.5)
    left = [r for r in world.net.history[mark:] if r.dst == peer.addr and r.data == b"PROBE-1"]
    local = spa._socket.local
    world.net.inject(peer.addr, local, b"PROBE-REPLY-1", delay=0.001, who="probe")
    world.sleep(0.5)
    got = [e for e in record if e[0] == "handle" and e[1] == 1]
    errs = [e for e in world.sched.thread_errors]
    if errs or not left or not got:
        world.violate(PROP, "engine-stopped", f"{ctx}: after the failed config step the engine no longer serves: probe send left={bool(left)}, "
                      f"probe reply dispatched={bool(got)}, thread errors={[repr(e)[:120] for e in errs[:2]]}", sig="engine-stopped:after-failed-handshake-step")
    res.probe("handshake_with_unknown_version")
    spa.complete()
    sim._socket.close()
    res.nontrivial = True
    res.faultfree = True
    res.shape = "unknown-version:" + cfg["unknown_version"]
    res.sample = {"sub": "handshake", "unknown_version": cfg["unknown_version"], "engine_alive": bool(left and got)}


def run_case(case: Dict[str, Any], replay: Optional[Dict[str, Any]] = None, keep_log: bool = False) -> RunResult:
    world = WorldT(case, replay, keep_log=keep_log)
    return world.run(scenario)


# ---------------------------------------------------------------------------------------------------
BUDGET = {"quick": 45, "thorough": 600}
RULE = ("World T (real thread functions on parked real threads, seeded baton scheduler, virtual time). Four sub-scenarios, drawn per run: "
        "(a) 1-5 caller threads queue uniquely tagged sends (optionally pre-empted at line level inside udp_socket.py); (b) 2-7+ harness "
        "handlers with overlapping prefix sets registered in drawn order, added/removed between datagrams, some raising in handle/handled, "
        "fed 5-40 datagrams singly and in bursts; (c) one request with drawn timeout T in {0.15..4} and retries N in {0..10}, unanswered or "
        "answered (possibly twice) at a drawn instant, with or without a competing handler; (d) the real GeckoSpa.start_connect() against the "
        "real simulator under a scripted loss pattern that kills the first k attempts of each step (requests, replies, or chosen segments of "
        "the first status-block chains). Non-trivial = more than one send / at least one datagram / any life run / at least one scripted drop "
        "fired; distinct = distinct event-log digest.")
SHAPE_MEASURE = "hash of the wire order (sends), expected dispatch table (dispatch), (T, N, answered, transmissions) (life), loss script (handshake)"
COMPONENTS = {
    "real": ["GeckoUdpSocket._thread_func/_process_send_requests/dispatch_recevied_data/_cleanup_handlers", "GeckoUdpProtocolHandler.loop/retry",
             "GeckoSpa.start_connect and its handshake chain, GeckoStructure", "GeckoSimulator + its engine thread", "real OS threads (parked)"],
    "stub": ["thread scheduling -> baton scheduler", "sockets -> FakeSocket/SimNet", "clock -> virtual", "handlers in (a)-(c) -> harness subclasses of GeckoUdpProtocolHandler"],
}
ASSUMPTIONS = [
    "T is never below two engine iterations plus the send-queue delay (below that the first retry has no destination yet; the existing test arranges the same)",
    "registration changes are made between datagrams, so 'the first registered handler that accepts it' is unambiguous",
    "the ping thread may die of the 45 s connection timeout in long loss patterns; the statement is about the handshake",
]
PROBES = ["caller_told_too_long_while_the_handshake_goes_on", "caller_preempted_inside_start_connect", "first_send_of_a_request_fails", "handler_raised_in_can_handle", "backlog_longer_than_timeout", "registered_while_engine_tidies_up", "handshake_with_unknown_version", "unreliable_simulator_handshake_completed", "incoming_traffic_while_sending", "multi_caller", "preempted_inside_udp_socket", "handler_removed_while_running", "no_handler_accepts", "handler_raised_in_handle",
          "handler_raised_in_handled", "unanswered", "answered", "answer_after_removal", "handshake_with_losses", "segment_lost_during_handshake"]
N_QUICK = 4800


def jobs(tier: str, base_seed: int):
    if tier == "quick":
        for i in range(0, N_QUICK, 20):
            yield {"kind": "seeded", "first": i, "count": 20, "mandatory": True}
    else:
        i = 0
        while True:
            yield {"kind": "seeded", "first": i, "count": 20}
            i += 20


def job_cases(job, tier: str, base_seed: int):
    from sim.driver import run_seed

    for i in range(job["first"], job["first"] + job["count"]):
        c = gen_case(run_seed(PROP, base_seed, i), tier, i)
        c["subspace"] = "sub:" + c["cfg"]["sub"]
        yield c
