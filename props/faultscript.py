"""Shared full-system scenario for C08 (lifecycle) and C09 (self-healing): the real manager driven by its own
sequence pump against the model spa, through a seeded script of fault phases, user resets / set-spa-info
calls (timed or triggered by an event, so that they land inside discovery / each handshake step / error
states), injected runtime events (C08) and finally a heal."""

from __future__ import annotations

import asyncio
import random
import traceback
from typing import Any, Dict, List, Optional

from sim.client import SPA_ID, SPA_NAME, task_name
from sim.core import HarnessError, RunResult, mix
from sim.lifecycle import LifecycleOracle
from sim.net import SPA_IP
from sim.peers import snapshot_files
from sim.system import System, table_max
from sim.worlda import WorldA

P_YIELD = 0.1
TRIGGERS = ["LOCATING_STARTED", "LOCATING_DISCOVERED_SPA", "LOCATING_FINISHED", "CONNECTION_STARTED", "CONNECTION_GOT_FIRMWARE_VERSION",
            "CONNECTION_GOT_CHANNEL", "CONNECTION_GOT_CONFIG_FILES", "CONNECTION_INITIAL_DATA_BLOCK_REQUEST", "CONNECTION_SPA_COMPLETE",
            "CLIENT_FACADE_IS_READY", "CONNECTION_FINISHED", "RUNNING_PING_MISSED", "RUNNING_PING_NO_RESPONSE", "ERROR_RF_ERROR",
            "CLIENT_FACADE_TEARDOWN", "RUNNING_SPA_DISCONNECTED", "CONNECTION_PROTOCOL_RETRY_COUNT_EXCEEDED", "SPA_NOT_FOUND"]
INJECTABLE = ["RUNNING_PING_NO_RESPONSE", "ERROR_RF_ERROR", "RUNNING_PING_RECEIVED", "RUNNING_PING_MISSED",
              "ERROR_PROTOCOL_RETRY_COUNT_EXCEEDED", "CONNECTION_PROTOCOL_RETRY_COUNT_EXCEEDED", "ERROR_TOO_MANY_RF_ERRORS"]


def fast_tables(rng: random.Random) -> Dict[str, Dict[str, float]]:
    def one():
        return {
            "DISCOVERY_INITIAL_TIMEOUT_IN_SECONDS": 1,
            "DISCOVERY_TIMEOUT_IN_SECONDS": 1,
            "TASK_TIDY_FREQUENCY_IN_SECONDS": rng.choice([5, 60]),
            "PING_FREQUENCY_IN_SECONDS": rng.choice([1, 2, 4]),
            "PING_DEVICE_NOT_RESPONDING_TIMEOUT_IN_SECONDS": rng.choice([3, 8, 20]),
            "FACADE_UPDATE_FREQUENCY_IN_SECONDS": rng.choice([5, 30]),
            "SPA_PACK_REFRESH_FREQUENCY_IN_SECONDS": rng.choice([5, 30, 120]),
            "PROTOCOL_TIMEOUT_IN_SECONDS": rng.choice([0.5, 1, 2]),
            "PROTOCOL_RETRY_COUNT": rng.choice([3, 10]),
            "PAUSE_BETWEEN_RETRIES_IN_SECONDS": rng.choice([0.2, 1]),
        }
    a, i = one(), one()
    init = rng.choice([1, 2])
    tmo = rng.choice([2, 4])
    for t in (a, i):
        t["DISCOVERY_INITIAL_TIMEOUT_IN_SECONDS"] = init
        t["DISCOVERY_TIMEOUT_IN_SECONDS"] = tmo
    return {"active": a, "idle": i}


def gen_case(prop: str, seed: int, tier: str, index: int, classes: List[str]) -> Dict[str, Any]:
    rng = random.Random(mix(seed, "faultscript.case"))
    cls = classes[index % len(classes)] if index < 3 * len(classes) else rng.choice(classes)
    tables = fast_tables(rng)
    loop_cfg: Dict[str, Any] = {"cost_small_p": 0.1, "cost_small_max": 0.003}
    if rng.random() < 0.3:
        loop_cfg.update(wall_jump_p=0.002, wall_jump_max=rng.choice([5.0, 3600.0, 86400.0]))      # the wall clock steps; monotonic time does not
    if rng.random() < 0.3:
        loop_cfg.update(cost_stall_p=0.001, cost_stall_min=0.05, cost_stall_max=rng.choice([0.3, 1.0]))
    plan: List[Dict[str, Any]] = []
    t = rng.uniform(0.0, 8.0) if cls != "steady" else rng.uniform(6.0, 12.0)
    nph = rng.randint(1, 4) if tier == "quick" else rng.randint(1, 8)
    kinds = {
        "loss": ["lossy"], "blackout": ["blackout", "oneway"], "rferr": ["rferr"], "mixed": ["lossy", "blackout", "oneway", "rferr", "reboot"],
        "resets": ["healthy"], "resets+faults": ["lossy", "blackout", "healthy"], "steady": ["healthy"], "inject": ["healthy", "lossy"],
        "reboot": ["reboot", "healthy"], "detect": ["healthy"],
    }[cls]
    for _ in range(nph):
        kind = rng.choice(kinds)
        dur = rng.choice([1.0, 3.0, 8.0, 20.0, 45.0]) if tier == "quick" else rng.choice([1.0, 3.0, 8.0, 20.0, 60.0, 150.0])
        ph = {"op": "phase", "t": round(t, 3), "kind": kind, "dur": dur}
        if kind == "lossy":
            ph["p"] = rng.choice([0.1, 0.3, 0.6])
            ph["send_error_p"] = rng.choice([0.0, 0.0, 0.05, 0.2])
        if kind == "oneway":
            ph["dir"] = rng.choice(["c2s", "s2c"])
        plan.append(ph)
        t += dur + rng.choice([0.0, 2.0, 10.0])
    end = t
    if cls in ("resets", "resets+faults", "mixed", "inject"):
        for _ in range(rng.randint(1, 4)):
            op = {"op": rng.choice(["reset", "reset", "setinfo"])}
            if rng.random() < 0.6:
                op["trigger"] = rng.choice(TRIGGERS)
                op["nth"] = rng.choice([1, 1, 2, 3])
                op["delay"] = rng.choice([0.0, 0.0, 0.05, 0.15, 0.5, 2.0])
                op["t"] = 0.0
            else:
                op["t"] = round(rng.uniform(0.0, end + 5), 3)
            plan.append(op)
            if rng.random() < 0.3:
                # the same thing twice: a second reset / set-spa-info while the first one may still be suspended in the client's handler
                twin = dict(op, op=rng.choice(["reset", "setinfo"]))
                d = rng.choice([0.0, 0.05, 0.3, 1.0])
                if "trigger" in twin:
                    twin["delay"] = round(twin["delay"] + d, 3)
                else:
                    twin["t"] = round(twin["t"] + d, 3)
                plan.append(twin)
    if prop == "C08" and cls in ("resets", "resets+faults") and rng.random() < 0.35:
        # (C08 only: after this fault the library's own recovery is not expected -- that would be C09's matter and is outside its
        # quantifier -- but a user reset afterwards is still a reset)
        t_ab = round(rng.uniform(6.0, end + 2), 3)
        plan.append({"op": "abort", "t": t_ab})
        plan.append({"op": rng.choice(["reset", "setinfo"]), "t": round(t_ab + rng.choice([0.0, 0.2, 2.0, 10.0]), 3)})
    if cls == "inject":
        for _ in range(rng.randint(2, 10)):
            plan.append({"op": "inject", "t": round(rng.uniform(0.5, end + 5), 3), "event": rng.choice(INJECTABLE)})
    if cls == "detect":
        # one total blackout, longer than the detection bound, starting in steady state
        plan = [{"op": "phase", "t": round(rng.uniform(8.0, 14.0), 3), "kind": "blackout", "dur": round(detection_bound(tables) + rng.choice([2.0, 10.0]), 1)}]
        end = plan[0]["t"] + plan[0]["dur"]
    rng_c = random.Random(mix(seed, "connect-while-facade"))
    if prop == "C08" and rng_c.random() < 0.25:
        for _ in range(rng_c.randint(1, 3)):
            plan.append({"op": "connect", "t": round(rng_c.uniform(6.0, end + 5), 3)})
    # the name is optional in set-spa-info (it is learnt from the discovery reply when connecting): leave it out now and then
    rng_name = random.Random(mix(seed, "setinfo-name"))
    for op in plan:
        if op["op"] == "setinfo":
            op["name"] = rng_name.choice(["given", "given", "none"])
    plan.sort(key=lambda o: (o["t"], o["op"]))
    snaps = snapshot_files()
    cfg = {"class": cls, "net": {"lat_min": 0.001, "lat_max": 0.004}, "loop": loop_cfg, "tables": tables, "end": round(end + 5, 3),
           "snapshot": snaps[rng.randrange(len(snaps))].split("/")[-1],
           "suspend_p": rng.choice([0.0, 0.0, 0.1, 0.3]), "suspend_max": rng.choice([0.3, 1.0, 3.0])}
    if rng.random() < 0.3:
        from sim.system import draw_firmware

        cfg["firmware"] = draw_firmware(rng)
    rng_r = random.Random(mix(seed, "handler-raises"))
    if prop == "C08" and rng_r.random() < 0.25:
        # the client's own handler fails on one delivery (first step or middle of a phase): the phase raises, its FINISHED is still owed
        cfg["raise_events"] = {rng_r.choice(["LOCATING_STARTED", "LOCATING_STARTED", "CONNECTION_STARTED", "LOCATING_DISCOVERED_SPA", "CONNECTION_GOT_CHANNEL",
                                            "CONNECTION_SPA_COMPLETE"]): rng_r.choice([1, 1, 2, 3])}
    # tuning knobs (class constants of GeckoConstants), randomised per run so that nothing silently depends on the shipped value:
    # the pause between handshake steps (shipped 0: a non-zero pause widens every window inside the handshake) ...
    cfg["consts"] = {"CONNECTION_STEP_PAUSE_IN_SECONDS": rng.choice([0, 0, 0, 0.3, 1.0])}
    if cls in ("rferr", "mixed"):
        # ... and how many RF errors one connection tolerates before ERROR_TOO_MANY_RF_ERRORS (shipped: 50)
        cfg["consts"]["MAX_RF_ERRORS_BEFORE_HALT"] = rng.choice([1, 4, 12, 50])
    return {"property": prop, "world": "A", "seed": seed, "cfg": cfg, "plan": plan}


def pump_task() -> Optional[asyncio.Task]:
    for t in asyncio.all_tasks():
        if t.get_name() == "SPAMAN:Sequence Pump":
            return t
    return None


def exc_site(exc: BaseException) -> str:
    tb = traceback.extract_tb(exc.__traceback__)
    site = "?"
    for fr in tb:
        if "/geckolib/" in fr.filename:
            site = fr.name
    return f"{type(exc).__name__}@{site}"


def pump_phases(deliveries, until: float):
    """Intervals during which the sequence pump itself was inside a locate or connect phase."""
    out = []
    open_: Dict[str, float] = {}
    for d in deliveries:
        if d["task"] != "SPAMAN:Sequence Pump":
            continue
        n = d["event"].name
        if n in ("LOCATING_STARTED", "CONNECTION_STARTED"):
            open_[n.split("_")[0]] = d["t"]
        elif n in ("LOCATING_FINISHED", "CONNECTION_FINISHED"):
            k = n.split("_")[0]
            if k in open_:
                # the phase's call returns only after the client's handler for the FINISHED delivery resumes
                out.append((k, open_.pop(k), d["t"] + float(d.get("suspended") or 0.0) + 1e-6))
    for k, a in open_.items():
        out.append((k, a, until))
    return out


def recovery_bound(tables: Dict[str, Dict[str, float]], step_pause: float = 0.0) -> float:
    T = table_max(tables, "PROTOCOL_TIMEOUT_IN_SECONDS")
    Pp = table_max(tables, "PAUSE_BETWEEN_RETRIES_IN_SECONDS")
    F = table_max(tables, "PING_FREQUENCY_IN_SECONDS")
    disc = table_max(tables, "DISCOVERY_TIMEOUT_IN_SECONDS")
    R = 10
    per_op = R * (T + Pp + P_YIELD)
    handshake = 12.0 + 8 * step_pause
    return 2.0 * (5 * per_op + F + 2 * (disc + 1.0) + handshake)


def detection_bound(tables: Dict[str, Dict[str, float]]) -> float:
    T = table_max(tables, "PROTOCOL_TIMEOUT_IN_SECONDS")
    Pp = table_max(tables, "PAUSE_BETWEEN_RETRIES_IN_SECONDS")
    F = table_max(tables, "PING_FREQUENCY_IN_SECONDS")
    N = table_max(tables, "PING_DEVICE_NOT_RESPONDING_TIMEOUT_IN_SECONDS")
    R = 10
    return N + 2 * (F + T + Pp) + 3 * R * (T + Pp + P_YIELD)


async def scenario(world: WorldA) -> None:
    from geckolib import GeckoSpaEvent, GeckoSpaState

    prop = world.case["property"]
    cfg = world.cfg
    res = world.result
    tables = cfg["tables"]
    world.net.healed = False
    sysm = System(world)
    model = sysm.peer.sim
    man = sysm.man
    orc = LifecycleOracle()
    man.on_delivery.append(orc.delivery)
    counts: Dict[str, int] = {}
    triggers: List[Dict[str, Any]] = [op for op in world.case["plan"] if op.get("trigger")]
    side_tasks: List[asyncio.Task] = []
    pump_dead: Dict[str, Any] = {}
    samples = {"n": 0}
    connected_at: List[float] = []
    left_connected_at: List[float] = []
    state_prev = {"s": "IDLE"}
    user_ops: List[Dict[str, Any]] = []
    phase_log: List[Dict[str, Any]] = []

    def monitor() -> None:
        samples["n"] += 1
        st = man.spa_state.name
        f = man.facade
        fc = None
        if f is not None:
            try:
                fc = bool(f.spa.is_connected)
            except Exception:
                fc = None
        orc.sample(world.now(), st, f, fc)
        if st != state_prev["s"]:
            if st == "CONNECTED":
                connected_at.append(world.now())
            if state_prev["s"] == "CONNECTED":
                left_connected_at.append(world.now())
            state_prev["s"] = st
        orc.abstract.add((st, f is not None, getattr(man, "_spa", None) is not None, man.spa_descriptors is not None,
                          man.status_sensor is not None, man.ping_sensor is not None, orc.ready - orc.teardown))
        if not pump_dead:
            pt = pump["t"]
            if pt is not None and pt.done() and not exiting["x"]:
                exc = None if pt.cancelled() else pt.exception()
                pump_dead.update(t=world.now(), exc=exc, site=exc_site(exc) if exc else ("cancelled" if pt.cancelled() else "returned"))
                world.log.add("pump-dead", pump_dead["site"])

    pump: Dict[str, Any] = {"t": None}
    exiting = {"x": False}

    async def user_op(op: Dict[str, Any]) -> None:
        kind = op["op"]
        rec = {"op": kind, "t0": world.now(), "state0": man.spa_state.name, "seq0": world.log.add("user-" + kind + "-begin", man.spa_state.name)}
        user_ops.append(rec)
        res.fault("user_" + kind)
        res.probe(f"{kind}_in_{man.spa_state.name}")
        if kind == "connect":
            # the client asks for a connection although one stands (its own reconnect logic after a missed ping, a double click): the
            # library refuses (AssertionError) and nothing else happens -- no event, no state change
            f0 = man.facade
            if f0 is None:
                res.probe("connect_request_skipped_no_facade")
                return
            n0 = len(man.deliveries)
            try:
                await man.async_connect_to_spa(f0.spa.descriptor)
                refused = False
            except AssertionError:
                refused = True
            res.probe("connect_requested_while_a_facade_exists")
            mine = [d for d in man.deliveries[n0:] if d["task"] == task_name()]
            if mine or not refused:
                world.note("C08", "unstarted-phase-announced", f"connect requested at {rec['t0']:.3f} while a facade exists (state {rec['state0']}): "
                           f"{'accepted' if not refused else 'refused'}, and the request itself delivered {[d['event'].name for d in mine][:6]}",
                           sig="connect-while-facade:events-delivered")
            return
        orc.user_reset_begin()
        try:
            if kind == "reset":
                await man.async_reset()
            else:
                if op.get("name") == "none":
                    res.probe("set_spa_info_without_a_name")
                await man.async_set_spa_info(SPA_IP, SPA_ID, None if op.get("name") == "none" else SPA_NAME)
        except asyncio.CancelledError:
            orc.user_resets -= 1
            raise
        except Exception as e:
            orc.user_resets -= 1
            rec["raised"] = exc_site(e)
            res.probe("user_op_raised")
            if prop == "C08":
                world.violate("C08", "reset-raised", f"{kind} at {rec['t0']:.3f} (state {rec['state0']}) raised {rec['raised']}",
                              sig="reset-raised:" + rec["raised"])
            return
        rec["t1"] = world.now()
        world.log.add("user-" + kind + "-end", man.spa_state.name)
        me = task_name()
        mine = [d for d in man.deliveries if d["seq"] > rec["seq0"] and d["task"] == me]
        others = [d for d in man.deliveries if d["seq"] > rec["seq0"] and d["task"] != me]
        overlapped = bool(others) and any(d.get("suspended") for d in mine)
        if overlapped:
            res.probe("reset_overlapped_by_other_tasks")
        orc.user_reset_end(world.now(), man.spa_state.name, man.facade, man.spa_descriptors, getattr(man, "_spa", "missing"),
                           f"{kind} started at {rec['t0']:.3f} in {rec['state0']}", overlapped=overlapped)

    def on_delivery(d: Dict[str, Any]) -> None:
        name = d["event"].name
        counts[name] = counts.get(name, 0) + 1
        if name == "ERROR_TOO_MANY_RF_ERRORS" and not str(d["task"]).startswith("HARNESS"):
            # "too many" is a matter of ONE connection: more RF-error datagrams than the limit must have reached the connection that says so
            # (the connection = the one whose receive queue the delivering consumer task took its last RFERR from; it may be an abandoned one)
            try:
                me_task = asyncio.current_task()
            except RuntimeError:
                me_task = None
            tr = None
            for label, q in sysm.queues.items():
                for it in reversed(q.items[-300:]):
                    if it["item"][0].startswith(b"RFERR") and any(pp.get("by_obj") is me_task for pp in it["pops"]):
                        tr = sysm.transports.get(label)
                        break
                if tr is not None:
                    break
            limit = int((cfg.get("consts") or {}).get("MAX_RF_ERRORS_BEFORE_HALT", 50))
            if tr is not None:
                n = sum(len(r.deliveries) for r in world.net.history if r.verb == "RFERR" and r.dst == tr.local)
                if n <= limit:
                    world.note(prop, "too-many-rf-errors-too-early", f"ERROR_TOO_MANY_RF_ERRORS delivered at {world.now():.3f} by {d['task']} although only {n} RFERR "
                               f"datagram(s) had reached this connection ({tr.label}); the limit is {limit} per connection "
                               f"(earlier connections of this run: {len(sysm.spas) - 1})", sig="too-many-rf-errors-too-early")
                else:
                    res.probe("too_many_rf_errors_after_more_than_the_limit")
        for op in triggers:
            if op.get("fired"):
                continue
            if op["trigger"] == name and counts[name] == op["nth"] and not healed["x"]:
                op["fired"] = True
                side_tasks.append(asyncio.create_task(delayed(op), name=f"HARNESS:user-{len(side_tasks)}"))

    async def delayed(op: Dict[str, Any]) -> None:
        if op.get("delay"):
            await asyncio.sleep(op["delay"])
        if healed["x"]:
            return
        await user_op(op)

    async def inject(op: Dict[str, Any]) -> None:
        spa = sysm.spa
        handler = getattr(spa, "_event_handler", None) if spa is not None else None
        if handler is None:
            res.probe("inject_without_spa")
            return
        res.fault("injected_event")
        try:
            await handler(GeckoSpaEvent[op["event"]])
        except asyncio.CancelledError:
            raise
        except Exception as e:
            res.probe("inject_raised:" + type(e).__name__)

    healed = {"x": False}
    man.on_delivery.append(on_delivery)
    world.loop.monitors.append(monitor)
    blackout_windows: List[Any] = []

    exit_raised: List[BaseException] = []

    class _Guard:
        """The manager's context, with an exception out of its exit kept as a finding instead of ending the run."""

        async def __aenter__(self):
            return await man.__aenter__()

        async def __aexit__(self, *exc):
            try:
                return await man.__aexit__(*exc)
            except asyncio.CancelledError:
                raise
            except Exception as e:          # noqa: BLE001
                exit_raised.append(e)
                return False

    async with _Guard():
        pump["t"] = pump_task()
        if pump["t"] is None:
            raise HarnessError("no task named 'SPAMAN:Sequence Pump'")
        base = world.now()
        for op in world.case["plan"]:
            if op.get("trigger"):
                continue
            wait = base + op["t"] - world.now()
            if wait > 0:
                await asyncio.sleep(wait)
            if op["op"] == "phase":
                side_tasks.append(asyncio.create_task(run_phase(world, model, op, res, blackout_windows, man, phase_log),
                                                      name=f"HARNESS:phase-{len(side_tasks)}"))
            elif op["op"] in ("reset", "setinfo", "connect"):
                side_tasks.append(asyncio.create_task(user_op(op), name=f"HARNESS:user-{len(side_tasks)}"))
            elif op["op"] == "inject":
                side_tasks.append(asyncio.create_task(inject(op), name=f"HARNESS:inject-{len(side_tasks)}"))
            elif op["op"] == "abort":
                # the operating system tears the connection's UDP endpoint down under the client (asyncio reports connection_lost); the
                # user then presses Reconnect: that reset must still land in IDLE
                spa0 = sysm.spa
                tr0 = sysm.client_endpoint_of(spa0) if spa0 is not None else None
                if tr0 is not None and not tr0.is_closing():
                    tr0.abort()
                    res.fault("endpoint_torn_down")
        rest = base + cfg["end"] - world.now()
        if rest > 0:
            await asyncio.sleep(rest)
        # ---- heal ------------------------------------------------------------------------------------------
        pend = [t for t in side_tasks if not t.done() and t.get_name().startswith("HARNESS:phase")]
        if pend:
            await asyncio.wait(pend, timeout=400)
        healed["x"] = True
        world.net.healed = True
        world.net.blackouts = []
        world.net.cfg["loss"] = 0.0
        model._do_rferr = False
        world.loop.stalls_on = False
        man.suspend_p = 0.0
        # user operations still running count as faults: wait for them before the clock starts
        pend = [t for t in side_tasks if not t.done()]
        if pend:
            await asyncio.wait(pend, timeout=600)
        heal_t = world.now()
        world.log.add("healed")
        B = recovery_bound(tables, float((cfg.get("consts") or {}).get("CONNECTION_STEP_PAUSE_IN_SECONDS", 0)))
        recovered_at = None
        while world.now() - heal_t < B:
            if man.spa_state == GeckoSpaState.CONNECTED and man.facade is not None:
                recovered_at = world.now()
                break
            if pump_dead:
                break
            await asyncio.sleep(0.2)
        # ---- C09 oracle ----------------------------------------------------------------------------------------
        if prop == "C09":
            if pump_dead:
                # attribute to a user operation that overlapped one of the pump's own locate/connect phases, if there was one
                sig = "pump-died:" + pump_dead["site"]
                phases = pump_phases(man.deliveries, pump_dead["t"])
                for u in user_ops:
                    for (k, a, b) in phases:
                        if u["t0"] <= pump_dead["t"] and u["t0"] <= b and u.get("t1", 1e18) >= a:
                            sig = f"pump-died:user-reset-during-{k}"
                world.violate("C09", "pump-died", f"the sequence pump task ended at {pump_dead['t']:.3f} with {pump_dead['site']} "
                              f"({pump_dead['exc']!r}); user ops: {[(u['op'], round(u['t0'], 2), u['state0']) for u in user_ops]}",
                              sig=sig)
            if recovered_at is None:
                st = man.spa_state.name
                spa_present = getattr(man, "_spa", None) is not None
                sig = f"no-recovery:{st}" + ("" if spa_present else ":no-spa")
                phases = pump_phases(man.deliveries, world.now())
                if st == "ERROR_SPA_NOT_FOUND":
                    # history signature: was the discovery that ended in "not found" (the locate pass that the connect runs itself: the last
                    # one) starved by faults -- no hello reply of the spa reached the locator during it -- or did replies arrive and the spa
                    # still was not found?
                    locs = [(a, b) for (k, a, b) in phases if k == "LOCATING"][-1:]
                    delivered = 0
                    for r in world.net.history:
                        if r.verb == "HELLO" and r.src[0] == SPA_IP:
                            delivered += sum(1 for (es, t) in r.deliveries if any(a - 1e-6 <= t <= b + 1e-6 for a, b in locs))
                    # (a reply that reached the endpoint but was never taken from its receive queue before the pass ended -- the event loop was
                    #  stalled over the end of the discovery -- starved the discovery just the same)
                    handled = 0
                    for q in sysm.queues.values():
                        for it in q.items:
                            if it["item"][0].startswith(b"<HELLO>") and it["item"][1][0] == SPA_IP:
                                handled += sum(1 for pp in it["pops"] if any(a - 1e-6 <= pp["t"] <= b + 1e-6 for a, b in locs))
                    ignored_long = False
                    for q in sysm.queues.values():
                        for it in q.items:
                            if it["item"][0].startswith(b"<HELLO>") and it["item"][1][0] == SPA_IP and not it["pops"]:
                                for a, b in locs:
                                    if a - 1e-6 <= it["put_t"] <= b + 1e-6 and (b - it["put_t"]) - world.clock.stall_between(it["put_t"], b) > 0.5:
                                        ignored_long = True        # it waited in the queue for half a second of un-stalled time and nobody took it
                    sig += ":discovery-starved" if (delivered == 0 or (handled == 0 and not ignored_long)) else ":although-hello-replies-arrived"
                    # ... and did that pass keep asking for the whole discovery timeout before it gave up?
                    disc = table_max(tables, "DISCOVERY_TIMEOUT_IN_SECONDS")
                    if locs and (locs[-1][1] - locs[-1][0]) < disc - 0.3 - world.clock.stall_between(locs[-1][0], locs[-1][1]):
                        sig += ":gave-up-before-the-discovery-timeout"
                if st != "ERROR_SPA_NOT_FOUND":
                    # history signature: which pump phase overlapped which user operation, and how -- the operation began while the pump was
                    # inside the phase ("reset-began-during"), or the pump started the phase while the operation was in progress, i.e.
                    # suspended in the client's handler ("phase-started-during-reset"); for locate phases also whether it was the pump's own
                    # first pass or the second pass inside async_connect
                    n_loc = 0
                    for (k, a, b) in phases:
                        if k == "LOCATING":
                            n_loc += 1
                        for u in user_ops:
                            if u["t0"] <= b and u.get("t1", 1e18) >= a:
                                how = "reset-began-during" if a <= u["t0"] else "phase-started-during-reset"
                                which = ""
                                if k == "LOCATING":
                                    prev = [p for p in phases if p[2] <= a + 1e-9 and p[0] == "LOCATING" and abs(p[2] - a) < 1e-6]
                                    which = ":second-pass" if prev else ":first-pass"
                                cand = f"no-recovery:{how}-{k}{which}"
                                # a phase the pump started while an operation was suspended explains everything that follows it
                                if not sig.startswith("no-recovery:phase-started-during-reset"):
                                    sig = cand
                # ... and is the pump, this long after the network healed, still inside a phase it started before (no FINISHED delivered)?  A phase
                # has its own bounds (discovery timeout; retry count x (timeout + pause) per handshake step): one that never ends is a different
                # history from a pump that came back to its loop and finds nothing to do
                open_now = [(k, a) for (k, a, b) in pump_phases(man.deliveries, world.now()) if b >= world.now() - 1e-9 and a < heal_t + 1.0]
                if open_now:
                    sig += f":pump-never-came-back-from-{open_now[0][0]}"
                world.violate("C09", "no-recovery", f"network healthy since {heal_t:.2f}, still {st} after {B:.0f}s "
                              f"(facade={'set' if man.facade else None}, spa={'set' if spa_present else None}); user ops: "
                              f"{[(u['op'], round(u['t0'], 2), u['state0']) for u in user_ops]}", sig=sig)
            res.stats["max_recovery_s"] = max(res.stats.get("max_recovery_s", 0), round(recovered_at - heal_t, 2))
            # the facade mirrors the spa
            await asyncio.sleep(1.0)
            t0 = world.now()
            f = man.facade
            ok = False
            while world.now() - t0 < 3 * table_max(tables, "SPA_PACK_REFRESH_FREQUENCY_IN_SECONDS") + 60:
                if man.facade is not None and man.facade.spa.struct.status_block == sysm.peer.block:
                    ok = True
                    break
                if pump_dead:
                    break
                await asyncio.sleep(0.5)
            if not ok and not pump_dead:
                world.violate("C09", "facade-does-not-mirror-spa", f"after recovery the client block differs from the spa's in "
                              f"{sum(1 for a, b in zip(man.facade.spa.struct.status_block, sysm.peer.block) if a != b) if man.facade else 'all'} bytes")
            if ok:
                f = man.facade
                mism = []
                acc_c, acc_s = f.spa.accessors, model.structure.accessors
                for dev in list(f.pumps) + list(f.blowers) + list(f.lights):
                    key = dev._state_sensor.accessor.tag if hasattr(dev, "_state_sensor") else None
                    if key and key in acc_s and acc_c[key].value != acc_s[key].value:
                        mism.append(key)
                if mism:
                    world.violate("C09", "facade-does-not-mirror-spa", f"device readings differ from the spa's accessors: {mism}")
            # detection of total blackouts
            Bd = detection_bound(tables)
            for w in blackout_windows:
                if w["state_at_start"] != "CONNECTED" or w["dur"] < Bd + 1 or w["dir"] != "both":
                    continue
                if any(u["t0"] <= w["t0"] + Bd and u.get("t1", 1e18) >= w["t0"] for u in user_ops):
                    continue
                left = [t for t in left_connected_at if t >= w["t0"]]
                stall = world.clock.stall_between(w["t0"], w["t0"] + Bd)
                if not left or left[0] > w["t0"] + Bd + stall:
                    world.violate("C09", "unreachable-not-reported", f"total blackout from {w['t0']:.2f} for {w['dur']}s in CONNECTED, "
                                  f"state left CONNECTED at {left[0] if left else None} (bound {Bd:.0f}s)")
                res.probe("blackout_detected_in_time")
        exiting["x"] = True
        world.loop.monitors.remove(monitor)
    if exit_raised:
        e = exit_raised[0]
        world.note(prop, "exit-raised", f"leaving the manager's context raised {exc_site(e)} ({e!r})", sig="exit-raised:" + exc_site(e))
    # a delivery chain cut because the client's own handler was cancelled while suspended owes nothing further
    cut = {d["task_key"] for d in man.deliveries if d.get("cancelled_in_handler")}
    orc.finish(world.now(), exempt_tasks=cut)
    # ---- C08 oracle -------------------------------------------------------------------------------------------
    if prop == "C08":
        for p in orc.problems:
            world.violate("C08", p["cls"], p["msg"], sig=p["sig"])
    for (a, b) in orc.pairs:
        pass
    res.stats["pairs"] = len(orc.pairs)
    res.stats["abstract_states"] = len(orc.abstract)
    res.sets = {"state_event_pairs": {f"{a}+{b}" for a, b in orc.pairs}, "abstract_states": {repr(x) for x in orc.abstract}}
    for k in ("ERROR_PING_MISSED", "ERROR_RF_FAULT", "ERROR_NEEDS_ATTENTION", "ERROR_SPA_NOT_FOUND"):
        if any(d["state"].name == k for d in man.deliveries):
            res.probe("visited_" + k)
    if cfg["class"] != "inject" and any(d["event"].name == "ERROR_TOO_MANY_RF_ERRORS" for d in man.deliveries):
        res.probe("too_many_rf_errors_raised_by_library")
    if len(connected_at) >= 2:
        res.probe("reconnected")
    if any(d.get("suspended") for d in man.deliveries):
        res.probe("handler_suspended")
    res.nontrivial = sum(res.faults.values()) > 0
    res.faultfree = cfg["class"] == "steady"
    res.shape = format(mix(0, repr([d["event"].name for d in man.deliveries if not d["event"].name.startswith("RUNNING_PING_RECEIVED")][:400])), "x")
    res.sample = {"class": cfg["class"], "plan": world.case["plan"][:8], "deliveries": len(man.deliveries),
                  "states": sorted({d["state"].name for d in man.deliveries}), "faults": dict(res.faults)}


async def run_phase(world: WorldA, model, op: Dict[str, Any], res: RunResult, blackout_windows: List[Any], man, phase_log) -> None:
    kind = op["kind"]
    t0 = world.now()
    phase_log.append({"kind": kind, "t0": t0, "dur": op["dur"]})
    if kind == "healthy":
        await asyncio.sleep(op["dur"])
    elif kind == "lossy":
        world.net.cfg["loss"] = op["p"]
        world.net.cfg["send_error_p"] = op.get("send_error_p", 0.0)
        res.fault("phase_lossy")
        await asyncio.sleep(op["dur"])
        world.net.cfg["loss"] = 0.0
        world.net.cfg["send_error_p"] = 0.0
    elif kind in ("blackout", "oneway"):
        d = "both" if kind == "blackout" else op["dir"]
        w = (t0, t0 + op["dur"], d)
        world.net.blackouts.append(w)
        blackout_windows.append({"t0": t0, "dur": op["dur"], "dir": d, "state_at_start": man.spa_state.name})
        res.fault("phase_" + kind)
        await asyncio.sleep(op["dur"])
    elif kind == "rferr":
        model.do_rferr("true")
        res.fault("phase_rferr")
        await asyncio.sleep(op["dur"])
        model.do_rferr("false")
    elif kind == "reboot":
        blk = bytearray(model.structure.status_block)
        for i in range(600, 640):
            blk[i] = (blk[i] + 1) % 256
        model.reboot(bytes(blk))
        res.fault("spa_reboot")
        world.net.blackouts.append((t0, t0 + min(op["dur"], 5.0), "both"))
        await asyncio.sleep(op["dur"])


def run_case(case: Dict[str, Any], replay: Optional[Dict[str, Any]] = None, keep_log: bool = False) -> RunResult:
    world = WorldA(case, replay, keep_log=keep_log)
    return world.run(scenario)
