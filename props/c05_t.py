"""C05, World T: the blocking client (GeckoSpa) applies partial updates exactly once, in arrival order, and acknowledges them."""

from __future__ import annotations

import os
import random
import struct
from typing import Any, Dict, List, Optional

from sim.core import HarnessError, RunResult, mix
from sim.net import SPA_IP, SPA_PORT, inner_of
from sim.peers import load_snapshot, make_simulator, model_spa_class, repo_root, snapshot_files
from sim.worldt import WorldT

PROP = "C05"


def gen_case(seed: int, tier: str, index: int, base_gen) -> Dict[str, Any]:
    c = base_gen(seed, tier, index)
    c["world"] = "T"
    cfg = c["cfg"]
    cfg.pop("loop", None)
    rng0 = random.Random(mix(seed, "c05t.early"))
    cfg["early"] = rng0.random() < 0.35        # partial updates that reach the client while its handshake is still in progress
    cfg["early_recs"] = [[[rng0.choice([275, 300, 301, 400, 600, 1000]), rng0.getrandbits(16)]] for _ in range(rng0.randint(1, 4))]
    cfg["sched"] = {"cost_p": 0.2, "cost_max": 0.002}
    rng2 = random.Random(mix(seed, "c05t.second"))
    if rng2.random() < 0.35:
        # a second blocking client in the same process, connected to the same spa (an application with two connections): each applies its
        # own copies of the partial updates; their engine threads (only those) are pre-empted at line level inside the update path
        cfg["second_client"] = True
        # (line tracing of two engine threads is expensive: a short history with moderate messages is enough for the overlap)
        c["plan"] = [o for o in c["plan"] if o["op"] != "revert"][:10]
        for o in c["plan"]:
            if o["op"] == "statp":
                o["recs"] = o["recs"][:30]
        cfg["sched"].update(preempt_p=rng2.choice([0.05, 0.2, 0.5]), preempt_files=["/spa.py", "statusblock.py"], preempt_threads=["_thread_func"])
    rng = random.Random(mix(seed, "c05t"))
    cfg["tables"] = {"idle": {"PING_FREQUENCY_IN_SECONDS": rng.choice([2, 5, 60]), "PROTOCOL_TIMEOUT_IN_SECONDS": rng.choice([1, 2]),
                              "PING_DEVICE_NOT_RESPONDING_TIMEOUT_IN_SECONDS": 600, "FACADE_UPDATE_FREQUENCY_IN_SECONDS": 30}}
    return c


def scenario(world: WorldT) -> None:
    from geckolib.spa import GeckoSpa
    from geckolib.spa_descriptor import GeckoSpaDescriptor

    from props.c05 import decode_statp

    cfg = world.cfg
    res = world.result
    res.faultfree = cfg["profile"] == "faultfree"
    with world.host(SPA_IP):
        model = make_simulator(model_spa_class())
        model.set_snapshot(load_snapshot(os.path.join(repo_root(), "tests", "snapshots", cfg["snapshot"])))
        model.do_start("")
    desc = GeckoSpaDescriptor(b"IOSverif-T", b"SPA01:02:03:04:05:06", "Udp Test Spa", (SPA_IP, SPA_PORT))
    world.net.healed = True
    spa = GeckoSpa(desc)
    writes: List[Any] = []
    orig = spa.struct.replace_status_block_segment

    def wrapped(offset, segment):
        writes.append((world.log.add("install", offset, len(segment)), offset, bytes(segment), spa.struct.status_block))
        return orig(offset, segment)
    spa.struct.replace_status_block_segment = wrapped
    preempt_p, world.sched.preempt_p = world.sched.preempt_p, 0.0       # (pre-emption starts once the connections stand)
    spa2 = None
    writes2: List[Any] = []
    if cfg.get("second_client"):
        spa2 = GeckoSpa(GeckoSpaDescriptor(b"IOSverif-T2", b"SPA01:02:03:04:05:06", "Udp Test Spa", (SPA_IP, SPA_PORT)))
        orig2 = spa2.struct.replace_status_block_segment

        def wrapped2(offset, segment):
            writes2.append((world.log.add("install2", offset, len(segment)), offset, bytes(segment), spa2.struct.status_block))
            return orig2(offset, segment)
        spa2.struct.replace_status_block_segment = wrapped2
        spa2.start_connect()
        if not world.wait_until(lambda: spa2._is_connected, 44):
            raise HarnessError("second blocking client did not connect on a healthy network")
        res.probe("two_blocking_clients_in_one_process")
    spa.start_connect()
    if cfg.get("early"):
        # someone presses a button on the spa while the client is still connecting: partial updates arrive during the handshake
        world.wait_until(lambda: model.last_sender is not None, 10, step=0.01)
        client_addr = model.last_sender
        for recs in cfg.get("early_recs", []):
            if client_addr is None or spa._is_connected:
                break
            changes = [(pos, struct.pack(">H", v)) for pos, v in recs]
            for pos, data in changes:
                model.structure.replace_status_block_segment(pos, data)
            model.emit_statp(changes, clients=[client_addr])
            res.probe("partial_update_during_handshake")
            world.sleep(0.35)
    if not world.wait_until(lambda: spa._is_connected, 44):
        raise HarnessError("blocking client did not connect on a healthy network")
    # the spa learns its clients from pings
    world.wait_until(lambda: bool(model._clients), 30)
    if spa2 is not None:
        world.wait_until(lambda: len(model._clients) >= 2, 70)
    world.sched.preempt_p = preempt_p
    world.net.healed = res.faultfree
    base = world.now()
    for op in world.case["plan"]:
        wait = base + op["t"] - world.now()
        if wait > 0:
            world.sleep(wait)
        if op["op"] == "statp":
            changes = [(pos, struct.pack(">H", v)) for pos, v in op["recs"]]
            for pos, data in changes:
                model.structure.replace_status_block_segment(pos, data)
            model.emit_statp(changes)
            if not changes:
                res.probe("empty_message")
            if len(changes) >= 200:
                res.probe("message_with_200_or_more_records")
            if len({p for p, _ in changes}) < len(changes):
                res.probe("repeated_position_in_message")
        elif op["op"] == "set1":
            model._send_structure_change = True
            try:
                model._on_set_value(op["pos"], 1, op["val"])
            finally:
                model._send_structure_change = False
            res.probe("one_byte_change")
        elif op["op"] == "refresh":
            try:
                spa.refresh()
            except Exception:
                res.probe("refresh_raised")
        elif op["op"] == "revert":
            def _refresh_and_wait():
                n0 = len([w for w in writes if len(w[2]) > 2])
                spa.refresh()
                world.wait_until(lambda: len([w for w in writes if len(w[2]) > 2]) > n0, 8.0, step=0.05)
                world.sleep(0.3)
            try:
                _refresh_and_wait()
                old_word = model.structure.status_block[op["pos"]:op["pos"] + 2]
                new_word = struct.pack(">H", op["val"]) if struct.pack(">H", op["val"]) != old_word else bytes([old_word[0] ^ 1, old_word[1]])
                model.structure.replace_status_block_segment(op["pos"], new_word)
                model.emit_statp([(op["pos"], new_word)])
                world.sleep(0.5)
                model.structure.replace_status_block_segment(op["pos"], old_word)        # unreported
                spa.refresh()
                world.sleep(2.5)
                res.probe("refresh_restores_a_value_after_an_unreported_revert")
            except Exception:
                res.probe("refresh_raised")
    world.sleep(1.0)
    world.net.healed = True
    world.wait_until(lambda: world.net.in_flight() == 0 and not model._socket._send_handlers and not spa._socket.inbox, 300, step=0.1)
    world.sleep(1.0)
    # ---- oracle ----------------------------------------------------------------------------------------------
    local = spa._socket.local
    arrivals = []
    for r in world.net.history:
        if r.dst == local and r.verb == "STATP":
            for es, t in r.deliveries:
                arrivals.append((es, r))
    arrivals.sort(key=lambda x: x[0])
    expected = []
    for es, r in arrivals:
        expected.extend(decode_statp(inner_of(r.data)))
    partial = [(o, s) for (_, o, s, _) in writes if len(s) <= 2]
    res.stats["arrivals"] = len(arrivals)
    res.stats["partial_writes"] = len(partial)
    if len(arrivals) >= 2:
        res.probe("two_or_more_messages")
    if len({id(r) for _, r in arrivals}) < len(arrivals):
        res.probe("duplicate_datagram_arrived")
    label = "[blocking]"
    if partial != expected:
        k = 0
        while k < min(len(partial), len(expected)) and partial[k] == expected[k]:
            k += 1
        if len(partial) > len(expected) or (k < len(partial) and partial[k] not in expected[k:]):
            cls, what = "extra-or-replayed-change", f"write #{k} {partial[k] if k < len(partial) else None} is not the next arrived change {expected[k] if k < len(expected) else None}"
        elif len(partial) < len(expected):
            cls, what = "dropped-change", f"{len(expected)} changes arrived, {len(partial)} applied; first difference at #{k}: expected {expected[k]}"
        else:
            cls, what = "out-of-order-change", f"first difference at #{k}: applied {partial[k]}, arrival order has {expected[k]}"
        world.violate(PROP, cls, f"{label} partial updates applied differ from arrival order: {what}")
    if spa2 is not None:
        world.sched.preempt_p = 0.0
        local2 = spa2._socket.local
        arr2 = sorted(((es, r) for r in world.net.history if r.dst == local2 and r.verb == "STATP" for es, t in r.deliveries), key=lambda x: x[0])
        exp2 = []
        for es, r in arr2:
            exp2.extend(decode_statp(inner_of(r.data)))
        part2 = [(o, sg) for (_, o, sg, _) in writes2 if len(sg) <= 2]
        if part2 != exp2:
            k = 0
            while k < min(len(part2), len(exp2)) and part2[k] == exp2[k]:
                k += 1
            cls = "extra-or-replayed-change" if (len(part2) > len(exp2) or (k < len(part2) and part2[k] not in exp2[k:])) else ("dropped-change" if len(part2) < len(exp2) else "out-of-order-change")
            world.violate(PROP, cls, f"[blocking, second client of the process] partial updates applied differ from what arrived at its endpoint: {len(exp2)} changes "
                          f"arrived, {len(part2)} applied, first difference at #{k}")
        acks2 = [r for r in world.net.history if r.src == local2 and r.verb == "STATQ"]
        if len(acks2) != len(arr2):
            world.violate(PROP, "ack-count", f"[blocking, second client of the process] {len(arr2)} partial-update messages arrived, {len(acks2)} acknowledgements sent")
        spa2.complete()
    # order against refreshes: a record that arrived before the final segment of a chain is applied before that chain is installed
    statv_rx = sorted(es for r in world.net.history if r.dst == local and r.verb == "STATV" for es, t in r.deliveries)
    big = [(seq, o, len(sg)) for (seq, o, sg, _) in writes if len(sg) > 2]
    part_w = [(seq, o, sg) for (seq, o, sg, _) in writes if len(sg) <= 2]
    if partial == expected:
        arr_seq = []
        for es, r in arrivals:
            arr_seq.extend([es] * len(decode_statp(inner_of(r.data))))
        for (w_seq, o, sg), a_seq in zip(part_w, arr_seq):
            for (i_seq, io, iln) in big:
                final_rx = max((x for x in statv_rx if x < i_seq), default=None)
                if final_rx is not None and a_seq < final_rx and w_seq > i_seq:
                    world.violate(PROP, "out-of-order-change", f"{label} the change ({o}, {sg!r}) arrived (event {a_seq}) before the final segment of a "
                                  f"refresh (event {final_rx}) but was applied (event {w_seq}) after that refresh was installed (event {i_seq})",
                                  sig="out-of-order-change:applied-after-later-refresh")
    acks = [r for r in world.net.history if r.src == local and r.verb == "STATQ"]
    for r in acks:
        seqb = inner_of(r.data)[5]
        if not (1 <= seqb <= 191):
            world.violate(PROP, "ack-sequence-range", f"{label} STATQ carries sequence {seqb}, outside 1..191")
    if len(acks) != len(arrivals):
        world.violate(PROP, "ack-count", f"{label} {len(arrivals)} partial-update messages arrived, {len(acks)} acknowledgements sent")
    blk = None
    for (_, o, s, before) in writes:
        if blk is not None and before != blk:
            world.violate(PROP, "unrecorded-write", f"{label} the block changed outside a recorded update")
        blk = before[:o] + s + before[o + len(s):]
    if blk is not None and spa.struct.status_block != blk:
        world.violate(PROP, "unrecorded-write", f"{label} final block is not the fold of the recorded writes")
    # (a chain is a snapshot taken when the spa answered the request: an update that arrives while a chain is still arriving is rightly
    # overwritten by older data, so the final comparison is only made when no update arrived during a transfer)
    statu_tx = sorted(r.lseq for r in world.net.history if r.src == local and r.verb == "STATU" and r.lseq is not None)
    skip = set()
    for es, r in arrivals:
        before = [x for x in statu_tx if x < es]
        if before and not any(i_seq > before[-1] and i_seq < es for (i_seq, _, _) in big):
            # a request went out before this update and its chain had not been installed yet: the positions of this update are exempt
            for pos, data in decode_statp(inner_of(r.data)):
                skip.update(range(pos, pos + len(data)))
    if skip:
        res.probe("update_arrived_during_a_transfer")
    cmp_pos = [i for i in range(1024) if i not in skip]
    if (res.faultfree and not any(op["op"] == "set1" for op in world.case["plan"]) and len(spa.struct.status_block) >= 1024
            and any(spa.struct.status_block[i] != model.structure.status_block[i] for i in cmp_pos)) or (res.faultfree and len(spa.struct.status_block) != 1024):
        # nothing was lost after the handshake: the updates applied in arrival order on top of what the handshake fetched must leave
        # the spa's block
        diff = [i for i in cmp_pos if i < len(spa.struct.status_block) and spa.struct.status_block[i] != model.structure.status_block[i]]
        world.violate(PROP, "final-block-mismatch", f"{label} fault-free session: the client block (length {len(spa.struct.status_block)}) differs from the spa's at {diff[:8]} after all updates "
                      f"were delivered (a change was replayed late or dropped)")
    spa.complete()
    model._socket.close()
    res.nontrivial = len(arrivals) >= 2
    res.shape = format(mix(0, repr((len(arrivals), len(partial), sorted(res.faults.items())))), "x")
    res.sample = {"world": "T", "profile": cfg["profile"], "arrivals": len(arrivals), "partial_writes": len(partial), "plan": world.case["plan"][:4]}


def run_case(case, replay=None, keep_log=False) -> RunResult:
    return WorldT(case, replay, keep_log=keep_log).run(scenario)
