"""C08 — lifecycle follows the state table; facade-ready/teardown are well-bracketed (full-system workload)."""

from __future__ import annotations

from typing import Any, Dict, Optional

from props import faultscript
from sim.core import RunResult

PROP = "C08"
LEVEL = "exploration"
CLASSES = ["resets", "resets+faults", "inject", "mixed", "steady", "blackout", "rferr", "inject"]


def gen_case(seed: int, tier: str, index: int) -> Dict[str, Any]:
    return faultscript.gen_case(PROP, seed, tier, index, CLASSES)


scenario = faultscript.scenario


def run_case(case: Dict[str, Any], replay: Optional[Dict[str, Any]] = None, keep_log: bool = False) -> RunResult:
    return faultscript.run_case(case, replay, keep_log)


BUDGET = {"quick": 50, "thorough": 600}
RULE = ("Each run = the full real client (manager constructed with address + identifier + name, so its sequence pump drives "
        "discovery and connection) against the model spa, through a seeded script of healthy / lossy / blackout / one-way / RF-error "
        "/ spa-reboot phases with user resets and set-spa-info calls at drawn times or triggered by a chosen event (so they land inside "
        "discovery, each handshake step, right after CONNECTED, and in error states), drawn timing tables, loop costs and client-handler "
        "suspension; then the network is healed. Checked: CONNECTED with a mirroring facade within the bound derived from the tables; "
        "total blackouts in CONNECTED reported within the detection bound; the sequence-pump task alive at every sample. Non-trivial = at "
        "least one fault or user operation fired; distinct = distinct event-log digest.")
SHAPE_MEASURE = "hash of the sequence of delivered events (ping-received omitted)"
COMPONENTS = {
    "real": ["GeckoAsyncSpaMan incl. _sequence_pump and _handle_event", "GeckoAsyncLocator", "GeckoAsyncSpa incl. ping/refresh loops", "GeckoAsyncFacade",
             "request engine, queue, consumers", "GeckoSimulator engine, handlers, do_rferr"],
    "stub": ["sockets/clock/selector", "spa reboot -> ModelSpa.reboot (forgets clients, changes block)"],
}
ASSUMPTIONS = [
    "recovery bound = 2 x (5 queued operations x 10 x (T+P+0.1) + ping period + 2 discovery passes + 12 s handshake), from the run's tables",
    "no obligation is evaluated while faults still flow; user operations still running when the network heals count as faults",
    "partial loss carries no detection obligation",
]
PROBES = ["visited_ERROR_PING_MISSED", "visited_ERROR_RF_FAULT", "visited_ERROR_NEEDS_ATTENTION", "visited_ERROR_SPA_NOT_FOUND",
          "reconnected", "too_many_rf_errors_raised_by_library", "handler_suspended", "reset_in_CONNECTING", "reset_in_LOCATING_SPAS", "reset_in_CONNECTED"]
N_QUICK = 2400


def jobs(tier: str, base_seed: int):
    if tier == "quick":
        for i in range(0, N_QUICK, 12):
            yield {"kind": "seeded", "first": i, "count": 12, "mandatory": True}
    else:
        i = 0
        while True:
            yield {"kind": "seeded", "first": i, "count": 12}
            i += 12


def job_cases(job, tier: str, base_seed: int):
    from sim.driver import run_seed

    for i in range(job["first"], job["first"] + job["count"]):
        c = gen_case(run_seed(PROP, base_seed, i), tier, i)
        c["subspace"] = "seeded:" + c["cfg"]["class"]
        yield c
