"""C10 — reset or exit at any point leaks no endpoint/task and has no late effects.

Crash-point enumeration inside a seeded schedule: a scenario (seed) is run once to count its loop callbacks
N; then the same seed is re-run with the injection "after callback k: async_reset() / async_set_spa_info()
/ leave the `async with` body".  Determinism makes the prefix identical, and every callback boundary is an
await point of some task, so sweeping k visits every reachable await point of the scenario.
"""

from __future__ import annotations

import asyncio
import random
from typing import Any, Dict, List, Optional

from props.faultscript import fast_tables
from sim.client import SPA_ID, SPA_NAME, library_tasks, task_key
from sim.core import HarnessError, RunResult, mix
from sim.net import SPA_IP, SPA_PORT
from sim.system import System
from sim.worlda import WorldA

PROP = "C10"
LEVEL = "fault_enumeration"
SCENARIOS = ["connect", "lossy-connect", "ping-missed", "rf-fault", "needs-attention", "steady-commands", "spa-not-found", "send-errors", "sync-commands"]
# the library's own reset (a ping answered in an error state), with the client's handler suspending: no injection index needed
AUTO_SCENARIOS = ["auto-reset-ping", "auto-reset-rf", "auto-reset-attention"]
KINDS = ["reset", "setinfo", "exit"]
GRACE = 1.0
EXIT_CAP = 300.0   # virtual seconds after which a context exit that has not returned counts as hanging
LATE_WINDOW = 300.0
_N_CACHE: Dict[Any, int] = {}
_SPANS_CACHE: Dict[Any, Any] = {}
_EPK_CACHE: Dict[Any, Any] = {}
_CMDK_CACHE: Dict[Any, Any] = {}


def scenario_case(sseed: int, scen: str, k: Optional[int], kind: str) -> Dict[str, Any]:
    rng = random.Random(mix(sseed, "c10.scen", scen))
    tables = fast_tables(rng)
    loop_cfg = {"cost_small_p": 0.1, "cost_small_max": 0.002}
    cfg = {"scenario": scen, "net": {"lat_min": 0.001, "lat_max": 0.004}, "loop": loop_cfg, "tables": tables,
           "snapshot": rng.choice(["default.snapshot", "inYT-Pump1Hi-2020-12-13 11_19_35.snapshot", "inYJ-All off-2020-12-18 11_24_09.snapshot"]),
           "suspend_p": rng.choice([0.0, 0.0, 0.2]) if not scen.startswith("auto-") else rng.choice([0.0, 0.5, 1.0]),
           "suspend_max": 0.4, "lossp": rng.choice([0.1, 0.25]),
           "inject": {"k": k, "kind": kind}}
    if scen == "sync-commands":
        # the shipped protocol timeout and retry pause (4 s / 2 s) or close to them: an unanswered command stays in its attempt for seconds
        for t in tables.values():
            t["PROTOCOL_TIMEOUT_IN_SECONDS"] = rng.choice([2, 4])
            t["PAUSE_BETWEEN_RETRIES_IN_SECONDS"] = rng.choice([1, 2])
    if sseed % 2 == 1:
        # tuning knob: the pause between handshake steps (shipped 0 = one turn of the loop): with a real pause the windows between the
        # steps of _connect() are many callbacks wide
        cfg["consts"] = {"CONNECTION_STEP_PAUSE_IN_SECONDS": 0.2}
    if scen.startswith("auto-") and sseed % 3 == 0:
        # the application leaves the manager's context while the library's own reset is suspended in the client's handler (the event that
        # announces the disconnect): the reset is cut short by the exit, which still owes the connection's endpoint its release
        cfg["exit_in_reset"] = True
        cfg["suspend_events"] = ["RUNNING_SPA_DISCONNECTED"]
    if scen in ("connect", "lossy-connect"):
        # hold the client's handler in the deliveries that mark the transient states (SPA_READY, LOCATED_SPAS), so that injection points
        # fall inside them
        cfg["suspend_events"] = [[], ["CONNECTION_SPA_COMPLETE"], ["LOCATING_FINISHED"], ["LOCATING_FINISHED", "CONNECTION_STARTED", "CONNECTION_SPA_COMPLETE"]][sseed % 4]
    return {"property": PROP, "world": "A", "seed": sseed, "cfg": cfg, "plan": []}


def baseline_n(sseed: int, scen: str) -> int:
    key = (sseed, scen)
    if key not in _N_CACHE:
        try:
            r = run_case(scenario_case(sseed, scen, None, "none"))
            stats, sample, callbacks = r.stats, r.sample, r.callbacks
        except HarnessError:
            # the scene cannot be set in this process (state left behind by earlier runs in code under test that keeps process-global
            # state?): take the baseline from a fresh interpreter
            from sim.driver import run_case_fresh

            fr = run_case_fresh(PROP, scenario_case(sseed, scen, None, "none"))
            if fr.get("error"):
                raise
            stats, sample, callbacks = fr.get("stats") or {}, fr.get("sample"), fr.get("callbacks") or 0
        _N_CACHE[key] = int(stats.get("body_callbacks", callbacks))
        _SPANS_CACHE[key] = (sample or {}).get("state_spans", [])
        _EPK_CACHE[key] = (sample or {}).get("endpoint_ks", [])
        _CMDK_CACHE[key] = (sample or {}).get("command_ks", [])
    return _N_CACHE[key]


def state_spans(sseed: int, scen: str):
    """[(state, k_from, k_to)]: which injection indices of the baseline run fall into which manager state."""
    baseline_n(sseed, scen)
    return _SPANS_CACHE.get((sseed, scen), [])


def gen_case(seed: int, tier: str, index: int) -> Dict[str, Any]:
    rng = random.Random(mix(seed, "c10.case"))
    scen = SCENARIOS[index % len(SCENARIOS)]
    sseed = 1000 + (index // len(SCENARIOS)) % 4          # a few scenario seeds, many injection points each
    n = baseline_n(sseed, scen)
    k = rng.randint(1, max(1, n))
    spans = state_spans(sseed, scen)
    epk = _EPK_CACHE.get((sseed, scen), [])
    cmdk = _CMDK_CACHE.get((sseed, scen), [])
    if cmdk and rng.random() < 0.5:
        # while a command is in flight (from its first callback to a few dozen later: one round trip, or the retries of an unanswered one)
        k = max(1, min(n, rng.choice(cmdk) + rng.choice([0, 1, 2, 3, 5, 8, 13, 21, 34, 55, 89])))
    elif epk and rng.random() < 0.15:
        k = max(1, min(n, rng.choice(epk) + rng.choice([0, 1, 1, 2, 3, 5])))
    elif spans and rng.random() < 0.4:
        # stratified by manager state: pick a state the baseline visited, then an index inside one of its spans, so that the short-lived
        # states (LOCATED_SPAS, SPA_READY, IDLE) get their share of injection points
        st = rng.choice(sorted({sp[0] for sp in spans}))
        lo, hi = rng.choice([(a, b) for (s0, a, b) in spans if s0 == st])
        k = max(1, min(n, rng.randint(lo, max(lo, hi))))
    kind = KINDS[(index // len(SCENARIOS)) % 3] if rng.random() < 0.8 else rng.choice(KINDS)     # (independent of scenario and scenario seed)
    c = scenario_case(sseed, scen, k, kind)
    if kind != "exit" and rng.random() < 0.4:
        # datagrams reach the connection in the very instant the reset is made (received, not yet handled by any consumer): they belong to the
        # abandoned connection and must not have any effect on the next one
        c["cfg"]["inject"]["burst"] = True
    return c


def cycles_case(seed: int, cycles: int) -> Dict[str, Any]:
    c = scenario_case(seed, "cycles", None, "none")
    c["cfg"]["cycles"] = cycles
    return c


class Watcher:
    """Registers recording observers on every observable of a connection as it appears."""

    def __init__(self, world: WorldA, sysm: System):
        self.world = world
        self.sys = sysm
        self.calls: List[Dict[str, Any]] = []
        self.gen = 0                       # connection generation (bumps at every CONNECTION_STARTED)
        self.watched: set = set()

    def _watch(self, obj, label: str) -> None:
        if obj is None or id(obj) in self.watched or not hasattr(obj, "watch"):
            return
        self.watched.add(id(obj))
        gen = self.gen
        keep = obj

        def observer(sender=None, old=None, new=None, label=label, gen=gen, keep=keep):
            self.calls.append({"t": self.world.now(), "label": label, "gen": gen, "task": task_key()})
        obj.watch(observer)

    def on_delivery(self, d: Dict[str, Any]) -> None:
        name = d["event"].name
        man = self.sys.man
        if name == "CONNECTION_STARTED":
            self.gen += 1
        spa = self.sys.spa
        if name in ("CONNECTION_GOT_FIRMWARE_VERSION", "CONNECTION_GOT_CHANNEL", "CONNECTION_SPA_COMPLETE") and spa is not None:
            self._watch(spa, "spa")
            self._watch(man.ping_sensor, "ping_sensor")
        if name == "CLIENT_FACADE_IS_READY" and man.facade is not None:
            f = man.facade
            self._watch(f, "facade")
            for dev in f.all_automation_devices:
                self._watch(dev, "device:" + str(getattr(dev, "key", "?")))
            self._watch(f.error_sensor, "error_sensor")
            accs = f.spa.accessors
            for key in sorted(accs)[:40]:
                self._watch(accs[key], "accessor:" + key)


async def scenario(world: WorldA) -> None:
    from geckolib import GeckoSpaState

    cfg = world.cfg
    res = world.result
    scen = cfg["scenario"]
    inj = cfg.get("inject") or {"k": None, "kind": "none"}
    sysm = System(world, record_queues=False, record_calls=False, record_installs=False,
                  man_kwargs={"spa_address": SPA_IP, "spa_identifier": SPA_ID, "spa_name": SPA_NAME})
    ep_cbs: List[int] = []
    world.loop.endpoint_hooks.append(lambda tr, pr: ep_cbs.append(world.loop.callbacks))
    man = sysm.man
    model = sysm.peer.sim
    watcher = Watcher(world, sysm)
    man.on_delivery.append(watcher.on_delivery)
    state: Dict[str, Any] = {"injected": None, "reset_done": None, "exit_injected": False}
    world.net.healed = True

    def on_auto(d: Dict[str, Any]) -> None:
        if scen.startswith("auto-reset") and state.get("auto") is None and d["event"].name == "RUNNING_SPA_DISCONNECTED" \
                and not d["task"].startswith("HARNESS"):
            a: Dict[str, Any] = {"t": world.now(), "state": d["state"].name, "transports": list(world.loop.transports), "gen": watcher.gen,
                                 "tasks": {task: task.get_name() for task in library_tasks() if task.get_name().split(":")[0] not in ("SPAMAN", "ASYNC")},
                                 "by": d["task"], "d": d}
            state["auto"] = a
            res.probe("library_reset_observed")
            if cfg.get("exit_in_reset") and body_task.get("t") is not None and not body_task["t"].done():
                state["exit_injected"] = True
                body_task["t"].cancel()
                res.probe("exit_while_the_library_reset_is_suspended_in_the_handler")
    man.on_delivery.append(on_auto)

    async def wait_state(pred, cap: float) -> bool:
        t0 = world.now()
        while world.now() - t0 < cap:
            if pred():
                return True
            await asyncio.sleep(0.1)
        return False

    async def body() -> None:
        if scen == "spa-not-found":
            world.net.blackouts.append((0.0, 1e9, "both"))
            world.net.healed = False
            await wait_state(lambda: man.spa_state == GeckoSpaState.ERROR_SPA_NOT_FOUND, 60)
            await asyncio.sleep(2.0)
            return
        if scen == "lossy-connect":
            world.net.healed = False
            world.net.cfg["loss"] = cfg["lossp"]
            world.net.cfg["send_error_p"] = 0.05       # some sendto() calls fail: asyncio reports them through error_received()
            await wait_state(lambda: man.spa_state == GeckoSpaState.CONNECTED, 120)
            world.net.cfg["loss"] = 0.0
            await asyncio.sleep(1.0)
            return
        try:
            await sysm.wait_connected()
        except HarnessError:
            if state["injected"] is not None:
                return          # the injection landed before the connection completed; the oracle takes over
            raise
        await asyncio.sleep(1.0)
        if scen == "connect":
            await asyncio.sleep(1.0)
        elif scen == "ping-missed":
            # only the pings go unanswered (under a total blackout some other request exhausts its retries first and the manager ends
            # in ERROR_NEEDS_ATTENTION, which the needs-attention scenario covers)
            model.silent_verbs.add("GeckoPingProtocolHandler")
            await wait_state(lambda: man.spa_state == GeckoSpaState.ERROR_PING_MISSED, 400)
            await asyncio.sleep(3.0)
        elif scen == "rf-fault":
            model.do_rferr("true")
            await wait_state(lambda: man.spa_state == GeckoSpaState.ERROR_RF_FAULT, 60)
            await asyncio.sleep(3.0)
        elif scen == "needs-attention":
            model.silent_verbs.update({"GeckoWatercareProtocolHandler", "GeckoRemindersProtocolHandler", "GeckoStatusBlockProtocolHandler",
                                       "GeckoGetChannelProtocolHandler"})
            f = man.facade
            t = asyncio.create_task(f.spa.async_get_watercare(), name="HARNESS:cmd-wc")
            await wait_state(lambda: man.spa_state == GeckoSpaState.ERROR_NEEDS_ATTENTION, 200)
            await asyncio.sleep(1.0)
        elif scen == "send-errors":
            # steady state in which a few of the connection's sendto() calls fail (ENETUNREACH): the transport stays open, asyncio only
            # calls protocol.error_received(); the connection carries on and is reset / left like any other
            world.net.healed = False
            world.net.cfg["send_error_p"] = 0.3
            for i in range(4):
                if man.facade is None:
                    break
                asyncio.create_task(_cmd(man.facade.spa, i), name=f"HARNESS:cmd-{i}")
                await asyncio.sleep(0.5)
            world.net.cfg["send_error_p"] = 0.0
            res.probe("send_errors_on_the_connection")
            await asyncio.sleep(3.0)
        elif scen == "steady-commands":
            f = man.facade
            cmds = []
            for i in range(6):
                if man.facade is None:
                    break
                spa = man.facade.spa
                cmds.append(asyncio.create_task(_cmd(spa, i), name=f"HARNESS:cmd-{i}"))
                await asyncio.sleep(0.35)
            await asyncio.sleep(2.0)
        elif scen == "sync-commands":
            # the synchronous twins of the command API (spa.press, structure.set_value: what `accessor.value = x` and the facade's
            # non-awaitable methods use): the library creates the command's task itself, so that task belongs to the connection; with an
            # odd scenario seed the spa does not acknowledge pack commands and they stay in flight (retrying) for a long time
            if world.case["seed"] % 2 == 1:
                model.silent_verbs.add("GeckoPackCommandProtocolHandler")
            for i in range(5):
                if man.facade is None:
                    break
                spa = man.facade.spa
                cmd_cbs.append(world.loop.callbacks)
                try:
                    if i % 2 == 0:
                        spa.press(21)
                    else:
                        spa.struct.set_value(700 + i, 1, i)
                    res.probe("command_through_the_synchronous_api")
                except Exception:
                    res.probe("cmd_raised")
                await asyncio.sleep(0.35)
            await asyncio.sleep(2.0)
        elif scen == "cycles":
            await cycles_body()
        elif scen.startswith("auto-reset"):
            errs = (GeckoSpaState.ERROR_PING_MISSED, GeckoSpaState.ERROR_RF_FAULT, GeckoSpaState.ERROR_NEEDS_ATTENTION)
            if scen == "auto-reset-ping":
                model.silent_verbs.add("GeckoPingProtocolHandler")
            elif scen == "auto-reset-rf":
                model.do_rferr("true")
            else:
                model.silent_verbs.update({"GeckoWatercareProtocolHandler", "GeckoRemindersProtocolHandler", "GeckoStatusBlockProtocolHandler",
                                           "GeckoGetChannelProtocolHandler"})
                asyncio.create_task(man.facade.spa.async_get_watercare(), name="HARNESS:cmd-wc")
            await wait_state(lambda: man.spa_state in errs, 250)
            await asyncio.sleep(1.0)
            # heal: the next answered ping makes the manager reset the connection itself
            world.net.healed = True
            world.net.blackouts.clear()
            model.do_rferr("false")
            model.silent_verbs.clear()
            await wait_state(lambda: state.get("auto") is not None, 200)
            await wait_state(lambda: man.spa_state not in errs, 30)
            if state.get("auto") is not None:
                if state["auto"]["d"].get("suspended"):
                    res.probe("library_reset_with_suspended_handler")
                await check_after_reset(world, sysm, man, watcher, state["auto"], {"reset_done": state["auto"]["t"]}, {"kind": "library-reset", "k": None}, model)

    cmd_cbs: List[int] = []

    async def _cmd(spa, i: int) -> None:
        cmd_cbs.append(world.loop.callbacks)
        try:
            if i % 3 == 0:
                await spa.async_press(21)
            elif i % 3 == 1:
                await spa.async_get_reminders()
            else:
                await spa.struct.async_set_value(700 + i, 1, i)
        except asyncio.CancelledError:
            raise
        except Exception:
            res.probe("cmd_raised")

    cycle_stats: List[Dict[str, Any]] = []
    reset_windows: List[Any] = []          # [t0, t1] of every user reset made by the harness

    async def cycles_body() -> None:
        for c in range(cfg.get("cycles", 5)):
            w0 = [world.now(), None]
            reset_windows.append(w0)
            await man.async_reset()
            w0[1] = world.now()
            await asyncio.sleep(GRACE)
            try:
                await sysm.wait_connected(one_update=False, cap=400)
            except HarnessError:
                cycle_stats.append({"cycle": c, "open": len(world.loop.open_transports()), "tasks": len(library_tasks())})
                # a manager that does not reconnect is C09's business (known: a reset suspended in the client's handler while the
                # pump re-locates leaves IDLE with descriptors set); C10 only judges what leaked, so stop cycling and go on
                res.probe("cycle_reconnect_failed")
                return
            await asyncio.sleep(0.3)
            cycle_stats.append({"cycle": c, "open": len(world.loop.open_transports()), "tasks": len(library_tasks())})

    # ---- injection ---------------------------------------------------------------------------------------------
    snap: Dict[str, Any] = {}

    def take_snapshot() -> None:
        snap["t"] = world.now()
        snap["state"] = man.spa_state.name
        snap["transports"] = list(world.loop.transports)
        snap["tasks"] = {task: task.get_name() for task in library_tasks() if task.get_name().split(":")[0] not in ("SPAMAN", "ASYNC")}
        cur = sysm.spa
        snap["spa_without_protocol"] = cur is not None and getattr(cur, "_protocol", None) is None and snap["state"] == "CONNECTING"
        snap["gen"] = watcher.gen
        snap["seq"] = world.log.add("inject", inj["kind"], man.spa_state.name)
        snap["stall0"] = world.clock.stall_total_ns
        res.probe("inject_in_" + man.spa_state.name)

    async def do_reset() -> None:
        cur0 = sysm.spa
        if cur0 is not None and getattr(cur0, "_protocol", None) is None and man.spa_state.name == "CONNECTING":
            snap["spa_without_protocol"] = True      # judged when the reset actually starts running
        w0 = [world.now(), None]
        reset_windows.append(w0)
        try:
            if inj["kind"] == "reset":
                await man.async_reset()
            else:
                await man.async_set_spa_info(SPA_IP, SPA_ID, SPA_NAME)
            state["reset_done"] = world.now()
            w0[1] = world.now()
        except asyncio.CancelledError:
            raise
        except Exception as e:
            state["reset_done"] = world.now()
            state["reset_raised"] = repr(e)
        # "promptly" is judged GRACE after the reset returned, whatever the scenario's body is doing at that time (a task that outlives
        # the reset by a few seconds and then ends by itself must not escape because the body happened to run longer)
        t_ret = state["reset_done"]
        await asyncio.sleep(GRACE)
        stall = world.clock.stall_between(t_ret, world.now())
        if stall > 0:
            await asyncio.sleep(stall)
        state["alive_at_grace"] = sorted(name for task, name in snap["tasks"].items() if not task.done())
        state["leaked_at_grace"] = [t for t in snap["transports"] if not t.close_called]

    def hook(cb: int) -> None:
        if state["injected"] is None and cb >= start_cb["n"] + inj["k"]:
            state["injected"] = cb
            world.loop.crash_hook = None
            take_snapshot()
            if inj["kind"] == "exit":
                state["exit_injected"] = True
                body_task["t"].cancel()
            else:
                if inj.get("burst"):
                    cur_spa = sysm.spa
                    tr0 = sysm.client_endpoint_of(cur_spa) if cur_spa is not None else None
                    if tr0 is not None and not tr0.is_closing():
                        cid = cur_spa.client_id

                        def frame0(inner: bytes) -> bytes:
                            return b"<PACKT><SRCCN>" + SPA_ID.encode() + b"</SRCCN><DESCN>" + cid + b"</DESCN><DATAS>" + inner + b"</DATAS></PACKT>"
                        for inner in (b"RFERR", b"WCERR", b"XQZZY\x01"):
                            world.net.inject((SPA_IP, SPA_PORT), tr0.local, frame0(inner), delay=0.0, who="burst-at-reset")
                        state["burst_to"] = tr0.local
                        state["burst_seq"] = world.log.seq
                        res.probe("datagrams_received_in_the_instant_of_the_reset")
                state["task"] = asyncio.ensure_future(do_reset(), loop=world.loop)
                state["task"].set_name("HARNESS:inject")

    start_cb = {"n": 0}
    body_task: Dict[str, Any] = {}
    exit_t0 = None
    async with man:
        start_cb["n"] = world.loop.callbacks
        if inj["k"] is not None:
            world.loop.crash_hook = hook
        async def guarded_body() -> None:
            try:
                await body()
            except asyncio.CancelledError:
                raise
            except Exception:
                # once the injection has landed the scripted body may find the connection gone: the oracle takes over
                if state["injected"] is None:
                    raise

        bt = asyncio.create_task(guarded_body(), name="HARNESS:body")
        body_task["t"] = bt
        try:
            await bt
        except asyncio.CancelledError:
            if not state["exit_injected"]:
                raise
        world.loop.crash_hook = None
        res.stats["body_callbacks"] = world.loop.callbacks - start_cb["n"]
        if state["injected"] is not None and inj["kind"] != "exit":
            # the body may have ended (or broken) meanwhile: wait for the reset to return
            t = state.get("task")
            if t is not None and not t.done():
                done, _ = await asyncio.wait([t], timeout=600)
                if not done:
                    world.note(PROP, "reset-never-returns", f"{inj['kind']} injected at callback {inj['k']} (state {snap['state']}) "
                                  f"had not returned after 600s")
            await check_after_reset(world, sysm, man, watcher, snap, state, inj, model)
        if state["injected"] is None and inj["k"] is not None:
            res.probe("injection_point_beyond_scenario")
        for t in [x for x in asyncio.all_tasks() if x.get_name().startswith("HARNESS:cmd")]:
            t.cancel()
        exit_t0 = world.now()
        exit_stall0 = world.clock.stall_total_ns
        if "t" not in snap:
            take_snapshot()

        async def exit_watchdog() -> None:
            # a context exit that never returns (a task that swallowed its cancellation keeps gather() waiting) is a verdict, not a cap
            await asyncio.sleep(EXIT_CAP)
            alive = sorted(t.get_name() for t in library_tasks())
            world.abort(PROP, "exit-hangs", f"the context exit had not returned {EXIT_CAP:.0f}s after the body was left; library tasks still alive: "
                        f"{alive} (scenario={scen} inject={inj} state_at_injection={snap.get('state')})",
                        sig="exit-hangs:" + "+".join(sorted({a.split('#')[0] for a in alive})))
        wd = asyncio.create_task(exit_watchdog(), name="HARNESS:exit-watchdog")
    # ---- after __aexit__ -------------------------------------------------------------------------------------------
    wd.cancel()
    exit_t1 = world.now()
    stall = (world.clock.stall_total_ns - exit_stall0) / 1e9
    left = [t.get_name() for t in library_tasks()]
    ctx = f"scenario={scen} inject={inj} state_at_injection={snap.get('state')}"
    if left:
        world.note(PROP, "task-left-after-exit", f"library tasks still alive after the context exit returned: {left} ({ctx})")
    if exit_t1 - exit_t0 - stall > GRACE:
        who = "facade-update-sleeps-in-finally" if man.facade is not None or True else "?"
        world.note(PROP, "slow-exit", f"context exit took {exit_t1 - exit_t0:.2f}s (injected stall {stall:.2f}s); 'promptly' is taken as {GRACE}s ({ctx})",
                      sig="slow-exit")
    open_tr = [t for t in world.loop.transports if not t.close_called]
    if open_tr:
        who = sorted({("locator" if t.created_by.startswith("SPAMAN") and _is_locator(t, sysm) else "spa") for t in open_tr})
        sig = "endpoint-leak:" + "+".join(who)
        if snap.get("spa_without_protocol") and who == ["spa"] and inj["kind"] != "exit":
            sig = "endpoint-leak:spa:reset-while-connect-awaits-its-endpoint"
        elif who == ["spa"] and all(any(a <= t.created_at <= (b if b is not None else 1e18) and (b is None or b - a > 1e-6) for a, b in reset_windows) for t in open_tr):
            # history signature: every leaked endpoint belongs to a connection the pump started WHILE a user reset was suspended in the
            # client's handler; the reset then overwrote the manager's reference to it
            sig = "endpoint-leak:spa:connection-started-during-suspended-reset"
        world.note(PROP, "endpoint-leak", f"{len(open_tr)} endpoint(s) never closed after exit: {[t.label for t in open_tr]} ({ctx})", sig=sig)
    # late effects after exit: old timers and late datagrams must not reach any observer or deliver any event
    n_calls = len(watcher.calls)
    n_deliv = len(man.deliveries)
    await late_traffic(world, sysm, model, snap.get("transports", []))
    await asyncio.sleep(LATE_WINDOW)
    if len(watcher.calls) > n_calls:
        c = watcher.calls[n_calls]
        world.note(PROP, "late-observer-call", f"observer on {c['label']} invoked at {c['t']:.2f}, after the context exit returned at {exit_t1:.2f} ({ctx})")
    if len(man.deliveries) > n_deliv:
        d = man.deliveries[n_deliv]
        world.note(PROP, "late-event", f"event {d['event'].name} delivered at {d['t']:.2f} by {d['task']}, after the context exit returned ({ctx})")
    if cycle_stats:
        worst_open = max(c["open"] for c in cycle_stats)
        worst_tasks = max(c["tasks"] for c in cycle_stats)
        res.stats["max_open_endpoints_over_cycles"] = worst_open
        res.stats["max_tasks_over_cycles"] = worst_tasks
        if worst_open > 2:
            world.note(PROP, "endpoints-grow-over-cycles", f"{worst_open} endpoints open after {len(cycle_stats)} reconnect cycles: "
                          f"{[c['open'] for c in cycle_stats]}", sig="endpoints-grow-over-cycles")
        if worst_tasks > 14:
            world.note(PROP, "tasks-grow-over-cycles", f"{worst_tasks} library tasks alive after {len(cycle_stats)} reconnect cycles: "
                          f"{[c['tasks'] for c in cycle_stats]}")
    res.nontrivial = state["injected"] is not None or scen == "cycles" or state.get("auto") is not None
    res.faultfree = inj["k"] is None
    res.shape = format(mix(0, repr((scen, inj["kind"], snap.get("state"), sorted(snap.get("tasks", {}).values())))), "x")
    res.sample = {"scenario": scen, "inject": inj, "state_at_injection": snap.get("state"),
                  "tasks_at_injection": sorted(snap.get("tasks", {}).values())}
    if inj["k"] is None and scen != "cycles":
        # baseline: the manager state per injection index (from the deliveries' callback numbers), for stratified sampling
        spans = []
        ds = [d for d in man.deliveries if d["cb"] >= start_cb["n"]]
        for a, b in zip(ds, ds[1:] + [None]):
            k0 = a["cb"] - start_cb["n"] + 1
            k1 = (b["cb"] - start_cb["n"]) if b is not None else int(res.stats.get("body_callbacks", k0))
            if k1 >= k0:
                if spans and spans[-1][0] == a["state"].name and spans[-1][2] + 1 >= k0:
                    spans[-1][2] = k1
                else:
                    spans.append([a["state"].name, k0, k1])
        res.sample["state_spans"] = spans[:400]
        # ... and the injection indices right after an endpoint was opened (discovery, connection): the few callbacks in which the
        # endpoint exists but the tasks that will use it do not
        res.sample["endpoint_ks"] = [c - start_cb["n"] for c in ep_cbs if c >= start_cb["n"]][:40]
        # ... and those at which a command was issued (a command in flight is the connection's shortest-lived piece of work)
        res.sample["command_ks"] = [c - start_cb["n"] for c in cmd_cbs if c >= start_cb["n"]][:40]


def _is_locator(tr, sysm: System) -> bool:
    return not any(getattr(s, "_verif_label", None) == tr.label for s in sysm.spas)


async def late_traffic(world: WorldA, sysm: System, model, transports) -> None:
    """Fresh STATP / ping replies / hello replies addressed to the abandoned endpoints."""
    from geckolib.driver import GeckoHelloProtocolHandler

    for tr in transports:
        spa = next((s for s in sysm.spas if getattr(s, "_verif_label", None) == tr.label), None)
        cid = spa.client_id if spa is not None else b"IOSverif-0001"

        def frame(inner: bytes) -> bytes:
            return b"<PACKT><SRCCN>" + SPA_ID.encode() + b"</SRCCN><DESCN>" + cid + b"</DESCN><DATAS>" + inner + b"</DATAS></PACKT>"
        for i, inner in enumerate([b"STATP\x01\x01\x10\x55\x55", b"APING\x00", b"RFERR", b"WCERR", b"STATP\x01\x02\x60\x01\x02"]):
            world.net.inject((SPA_IP, SPA_PORT), tr.local, frame(inner), delay=0.05 + 0.3 * i, who="late")
        world.net.inject((SPA_IP, SPA_PORT), tr.local, GeckoHelloProtocolHandler.response(SPA_ID.encode(), SPA_NAME).send_bytes, delay=0.2, who="late")
    world.result.fault("late_datagrams", 6 * len(transports))


def orphan_consumers() -> List[str]:
    """Live library tasks running a queue consumer (`consume(protocol)`) whose protocol no longer has an endpoint."""
    out = []
    for t in library_tasks():
        if t.done():
            continue
        coro = t.get_coro()
        seen = 0
        while coro is not None and seen < 6:
            fr = getattr(coro, "cr_frame", None)
            if fr is not None and fr.f_code.co_name == "consume":
                pr = fr.f_locals.get("protocol")
                if pr is not None and getattr(pr, "transport", "?") is None:
                    out.append(t.get_name())
                break
            coro = getattr(coro, "cr_await", None)
            seen += 1
    return sorted(out)


async def check_after_reset(world: WorldA, sysm: System, man, watcher: Watcher, snap, state, inj, model) -> None:
    res = world.result
    ctx = f"scenario={world.cfg['scenario']} inject={inj} state_at_injection={snap['state']}"
    t_ret = state["reset_done"] or world.now()
    if inj["kind"] == "library-reset":
        t_ret = world.now()
    if state.get("reset_raised"):
        res.probe("reset_raised")
    # "promptly": ten polling intervals after the reset returns (+ injected stall)
    await asyncio.sleep(GRACE)
    stall = world.clock.stall_between(t_ret, world.now())
    if stall > 0:
        await asyncio.sleep(stall)
    leaked = [t for t in snap["transports"] if not t.close_called]
    if not leaked and state.get("leaked_at_grace"):
        leaked = state["leaked_at_grace"]
        res.probe("judged_at_grace_after_reset")
    alive = sorted(name for task, name in snap["tasks"].items() if not task.done())
    if not alive and state.get("alive_at_grace"):
        alive = state["alive_at_grace"]
        res.probe("judged_at_grace_after_reset")
    # history signature: a discovery was in progress when the reset was made (its endpoint and its two helper tasks are what is left) --
    # does it at least end at its own timeout?  (left for good is a different matter from left until the discovery times out)
    own_timeout = False
    if inj["kind"] in ("reset", "setinfo") and (leaked or alive) and all(_is_locator(t, sysm) for t in leaked) \
            and all(a.startswith("LOC:") for a in alive):
        from sim.system import table_max

        until = t_ret + table_max(world.cfg["tables"], "DISCOVERY_TIMEOUT_IN_SECONDS") + GRACE
        if until > world.now():
            await asyncio.sleep(until - world.now())
        stall = world.clock.stall_between(t_ret, world.now())
        if stall > 0:
            await asyncio.sleep(stall)
        own_timeout = not any(not t.close_called for t in leaked) and \
            not any(not task.done() for task, name in snap["tasks"].items() if name.startswith("LOC:"))
        res.probe("discovery_in_progress_at_reset")
    if leaked:
        who = sorted({"locator" if _is_locator(t, sysm) else "spa" for t in leaked})
        sig = "endpoint-leak:" + "+".join(who)
        if own_timeout:
            sig = "endpoint-leak:locator:discovery-in-progress-at-reset-runs-on-until-its-own-timeout"
        if snap.get("spa_without_protocol") and who == ["spa"]:
            # history signature: the reset landed while _connect() was still waiting for its endpoint, before the spa had a protocol to drop
            sig = "endpoint-leak:spa:reset-while-connect-awaits-its-endpoint"
        world.note(PROP, "endpoint-leak", f"{len(leaked)} endpoint(s) of the abandoned connection not closed {GRACE}s after the "
                      f"{inj['kind']} returned: {[t.label for t in leaked]} ({ctx})", sig=sig)
    if alive:
        sig = "task-left-after-reset:" + "+".join(sorted({a.split(":")[0] + ":" + a.split(":")[1] for a in alive}))
        if own_timeout:
            sig = "task-left-after-reset:LOC:discovery-in-progress-at-reset-runs-on-until-its-own-timeout"
        world.note(PROP, "task-left-after-reset", f"tasks of the abandoned connection still alive {GRACE}s after the {inj['kind']} "
                      f"returned: {alive} ({ctx})", sig=sig)
    # tasks started *after* the reset on behalf of the abandoned connection: a consumer task that polls the receive queue of a protocol
    # whose endpoint is gone serves nobody and never ends by itself
    orphans = orphan_consumers()
    if orphans:
        world.note(PROP, "task-left-after-reset", f"{GRACE}s after the {inj['kind']} returned, consumer task(s) are polling a connection whose endpoint "
                      f"has been released: {orphans} ({ctx})", sig="task-left-after-reset:consumers-on-a-released-endpoint")
    # late effects: in-flight + fresh datagrams to the abandoned endpoints, all old timers fire
    mark_calls = len(watcher.calls)
    mark_deliv = len(man.deliveries)
    old_tasks = {f"{name}" for name in snap["tasks"].values()}
    old_keys = set()
    for task in snap["tasks"]:
        u = getattr(task, "_verif_uid", None)
        if u is not None:
            old_keys.add(f"{task.get_name()}#{u}")
    await late_traffic(world, sysm, model, snap["transports"])
    t0 = world.now()
    await asyncio.sleep(LATE_WINDOW)
    # history signature: was the sequence pump inside one of its own locate/connect phases when the reset started?
    from props.faultscript import pump_phases
    in_pump_phase = any(a <= snap["t"] <= b for (_k, a, b) in pump_phases([d for d in man.deliveries if d["t"] <= snap["t"]], snap["t"] + 1e9))
    for c in watcher.calls[mark_calls:]:
        if c["gen"] <= snap["gen"]:
            sig = "late-observer-call:" + c["label"].split(":")[0]
            if in_pump_phase and inj["kind"] != "library-reset":
                sig = "late-observer-call:pump-continued-abandoned-connect"
            world.note(PROP, "late-observer-call", f"observer on {c['label']} of the abandoned connection invoked at {c['t']:.2f} by {c['task']}, "
                          f"reset returned at {t_ret:.2f} ({ctx})", sig=sig)
    if state.get("burst_to") is not None:
        # datagrams were received by the abandoned connection in the instant of the reset and nobody had taken them yet: they stay in ITS
        # receive buffer.  An endpoint opened since the reset that works on that very buffer object inherits them (they block its queue or
        # are processed by its consumers).
        old_qs = {id(getattr(sysm.protocols.get(t.label), "queue", None)): t.label for t in snap["transports"] if sysm.protocols.get(t.label) is not None}
        for label, pr in sysm.protocols.items():
            if label in old_qs.values():
                continue
            qn = getattr(pr, "queue", None)
            if qn is not None and id(qn) in old_qs:
                world.note(PROP, "late-event", f"endpoint {label}, opened after the {inj['kind']}, works on the receive buffer of the abandoned endpoint "
                           f"{old_qs[id(qn)]}, which still held the datagrams received in the instant of the reset ({ctx})",
                           sig="late-effect:receive-buffer-of-the-abandoned-connection-reused")
                break
        # the RF-error / watercare-error announcements that were received in the instant of the reset belong to the abandoned connection:
        # such an event delivered afterwards must stem from a datagram that reached one of the endpoints opened since
        old_labels = {t.label for t in snap["transports"]}
        for verb, evname in (("RFERR", "ERROR_RF_ERROR"), ("WCERR", "RUNNING_SPA_WATER_CARE_ERROR")):
            for d in [d for d in man.deliveries if d["seq"] > state["burst_seq"] and d["event"].name == evname and d["t"] > t_ret]:
                # which connection speaks: the newest endpoint from whose receive queue the delivering task took such a datagram
                lab = None
                for label in reversed(list(sysm.queues)):
                    q = sysm.queues[label]
                    if any(it["item"][0].startswith(verb.encode()) and any(pp.get("by_obj") is d.get("task_obj") for pp in it["pops"]) for it in q.items[-200:]):
                        lab = label
                        break
                if lab is None or lab in old_labels:
                    continue          # the abandoned connection's own consumer (a connect that went on after the reset: findings c')
                tr_new = sysm.transports.get(lab)
                fresh = sum(len(r.deliveries) for r in world.net.history if r.verb == verb and tr_new is not None and r.dst == tr_new.local)
                if not fresh:
                    world.note(PROP, "late-event", f"event {evname} delivered at {d['t']:.2f} by {d['task']} of connection {lab}, opened after the {inj['kind']} "
                               f"returned at {t_ret:.2f}, although no {verb} datagram ever reached that endpoint: a datagram received by the abandoned "
                               f"connection in the instant of the reset was processed by the next one ({ctx})",
                               sig="late-event:leftover-datagram-processed-by-the-next-connection")
                    break
    pump_new_start = None
    for d in man.deliveries[mark_deliv:]:
        if d["task_key"] in old_keys:
            world.note(PROP, "late-event", f"event {d['event'].name} delivered at {d['t']:.2f} by {d['task']} of the abandoned connection, "
                          f"reset returned at {t_ret:.2f} ({ctx})",
                          sig="late-event:pump-continued-abandoned-connect" if (in_pump_phase and inj["kind"] != "library-reset") else "late-event:" + d["task"].split(":")[0])
        if d["task"] == "SPAMAN:Sequence Pump":
            n = d["event"].name
            if n in ("CONNECTION_STARTED", "LOCATING_STARTED") and pump_new_start is None:
                pump_new_start = d["t"]
            elif pump_new_start is None and n.startswith("CONNECTION_") and snap["state"] in ("CONNECTING", "SPA_READY"):
                world.note(PROP, "late-event", f"event {n} delivered at {d['t']:.2f} by the sequence pump for the connection that the "
                              f"{inj['kind']} abandoned (returned at {t_ret:.2f}) ({ctx})", sig="late-event:pump-continued-abandoned-connect")


def run_case(case: Dict[str, Any], replay: Optional[Dict[str, Any]] = None, keep_log: bool = False) -> RunResult:
    world = WorldA(case, replay, keep_log=keep_log)
    return world.run(scenario)


# ---------------------------------------------------------------------------------------------------
BUDGET = {"quick": 60, "thorough": 900}
RULE = ("Seven scenarios (clean connect, connect under loss, ping-missed / RF-fault / needs-attention / spa-not-found error states, steady "
        "state with commands in flight) x a few scenario seeds are each run once to count their loop callbacks N; the same seed is then "
        "re-run with async_reset() / async_set_spa_info() / leaving the `async with` body injected after callback k. quick: a seeded "
        "stratified sample of k; thorough: EVERY k of every scenario seed. Plus K consecutive reconnect cycles. After the injection: "
        "transports handed out by the loop must be closed and SPA:/FACADE:/LOC: tasks done within 1 s (+ injected stall); then late "
        "datagrams are delivered to the abandoned endpoints and 300 s of virtual time fire every old timer: no observer registered on "
        "the abandoned facade/devices/spa/sensors may be called and no event delivered on its behalf. Non-trivial = the injection "
        "point was reached; distinct = distinct event-log digest.")
SHAPE_MEASURE = "hash of (scenario, injection kind, manager state at injection, set of connection tasks alive at injection)"
COMPONENTS = {
    "real": ["GeckoAsyncSpaMan.async_reset / async_set_spa_info / __aexit__", "AsyncTasks.gather/cancel_key_tasks", "GeckoAsyncSpa.disconnect",
             "GeckoAsyncUdpProtocol.disconnect/connection_lost", "GeckoAsyncFacade.disconnect", "GeckoAsyncLocator.discover", "all loops and consumers"],
    "stub": ["transports -> SimTransport (records close())", "clock/selector", "late datagrams -> injected by the harness"],
}
ASSUMPTIONS = [
    "'promptly' is taken as 1 s (ten polling intervals) plus simulator-injected stall",
    "a callback boundary is an await point of some task; sweeping the callback index therefore sweeps the reachable await points of the scenario",
    "observers are the harness's own recording callbacks registered through the public watch() API",
]
PROBES = ["command_through_the_synchronous_api", "datagrams_received_in_the_instant_of_the_reset", "exit_while_the_library_reset_is_suspended_in_the_handler", "library_reset_observed", "library_reset_with_suspended_handler", "inject_in_LOCATING_SPAS", "inject_in_CONNECTING", "inject_in_CONNECTED", "inject_in_ERROR_PING_MISSED", "inject_in_ERROR_RF_FAULT",
          "inject_in_ERROR_NEEDS_ATTENTION", "inject_in_ERROR_SPA_NOT_FOUND", "inject_in_LOCATED_SPAS", "inject_in_SPA_READY"]
EXHAUSTIVE = {"quick": False, "thorough": False}
N_QUICK = 1680


def jobs(tier: str, base_seed: int):
    if tier == "quick":
        yield {"kind": "cycles", "mandatory": True}
        yield {"kind": "baselines", "mandatory": True}
        for i in range(0, 60, 4):
            yield {"kind": "auto", "first": i, "count": 4, "mandatory": True}
        for i in range(0, N_QUICK, 21):
            yield {"kind": "seeded", "first": i, "count": 21, "mandatory": True}
    else:
        yield {"kind": "cycles", "mandatory": True}
        yield {"kind": "baselines", "mandatory": True}
        for i in range(0, 600, 4):
            yield {"kind": "auto", "first": i, "count": 4, "mandatory": True}
        for sseed in (1000, 1001):
            for scen in SCENARIOS:
                n = baseline_n(sseed, scen)
                # every callback index for scenarios of up to 3000 callbacks; the first 1500 plus a stride for longer ones
                ks = list(range(1, n + 1)) if n <= 3000 else (list(range(1, 1501)) + list(range(1501, n + 1, max(1, n // 1500))))
                for kind in KINDS:
                    for lo in range(0, len(ks), 150):
                        yield {"kind": "sweep", "sseed": sseed, "scen": scen, "ikind": kind, "ks": ks[lo:lo + 150],
                               "complete": n <= 3000, "mandatory": True}
        i = 0
        while True:
            yield {"kind": "seeded", "first": i, "count": 21}
            i += 21


def job_cases(job, tier: str, base_seed: int):
    from sim.driver import run_seed

    if job["kind"] == "seeded":
        for i in range(job["first"], job["first"] + job["count"]):
            c = gen_case(run_seed(PROP, base_seed, i), tier, i)
            c["subspace"] = f"inject:{c['cfg']['scenario']}:{c['cfg']['inject']['kind']}"
            yield c
    elif job["kind"] == "cycles":
        for n, sd in ((5, 1), (20, 2), (50, 3)):
            c = cycles_case(mix(base_seed, "cycles", sd) & 0xFFFFFFFF, n)
            c["subspace"] = "cycles"
            yield c
    elif job["kind"] == "baselines":
        for sseed in (1000, 1001, 1002, 1003):
            for scen in SCENARIOS:
                c = scenario_case(sseed, scen, None, "none")
                c["subspace"] = "baseline"
                yield c
    elif job["kind"] == "auto":
        for sseed in range(job["first"], job["first"] + job["count"]):
            for scen in AUTO_SCENARIOS:
                c = scenario_case(2000 + sseed, scen, None, "none")
                c["subspace"] = "library-reset:" + scen
                yield c
    elif job["kind"] == "sweep":
        for k in job["ks"]:
            c = scenario_case(job["sseed"], job["scen"], k, job["ikind"])
            c["subspace"] = f"sweep{'-complete' if job['complete'] else '-strided'}:{job['scen']}:{job['ikind']}"
            yield c


def evidence_extra(tier: str, total) -> Dict[str, Any]:
    return {"exhaustive_subclaim": ("thorough sweeps EVERY callback index k (scenarios up to 3000 callbacks; first 1500 + a stride for longer ones) of 2 scenario seeds x 7 scenarios x 3 injection kinds; quick samples k"
                                    if tier == "thorough" else "quick samples the injection index k; the complete sweep is in the thorough tier"),
            "sweep_cases": sum(v for k, v in total.subspaces.items() if k.startswith("sweep:"))}
