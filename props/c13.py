"""C13 — facade commands emit exactly the intended device write and are idempotent."""

from __future__ import annotations

import asyncio
import random
import struct
from typing import Any, Dict, List, Optional

from sim.core import HarnessError, RunResult, mix
from sim.net import SPA_IP
from sim.peers import load_snapshot, repo_root, snapshot_files
from sim.system import System
from sim.worlda import WorldA

PROP = "C13"
LEVEL = "exploration"
# independent keypad table (in.touch2 keypad codes), not read from GeckoConstants
KEYPAD = {"P1": 1, "P2": 2, "P3": 3, "P4": 4, "P5": 5, "BL": 6, "LI": 16, "Waterfall": 23}
# which status-block item tells whether a keypad device is on (the harness' own table: an output's state item carries the device's key as its
# name; the lights have no output item and are read from their user demand)
STATE_ITEM = {"P1": "P1", "P2": "P2", "P3": "P3", "P4": "P4", "P5": "P5", "BL": "BL", "Waterfall": "Waterfall", "LI": "UdLi"}
CMDS = ["pump_mode", "switch_on", "switch_off", "eco_on", "eco_off", "target_temp", "temp_unit", "watercare_idx", "watercare_label"]


def gen_case(seed: int, tier: str, index: int) -> Dict[str, Any]:
    if (index // len(snapshot_files())) % 5 == 4:
        # every fifth sweep over the snapshots drives the blocking facade (the sync twins of every command)
        from props import c13_t

        return c13_t.gen_case(seed, tier, index, _gen_case_a)
    return _gen_case_a(seed, tier, index)


def _gen_case_a(seed: int, tier: str, index: int) -> Dict[str, Any]:
    rng = random.Random(mix(seed, "c13.case"))
    snaps = snapshot_files()
    snap = snaps[index % len(snaps)].split("/")[-1]
    n = rng.randint(10, 30) if tier == "quick" else rng.randint(15, 60)
    long_history = index % 8 == 5
    if long_history:
        n = rng.randint(180, 260)      # more than a full cycle (64) of command sequence numbers on one connection
    plan = []
    for _ in range(n):
        plan.append({"op": rng.choice(CMDS), "dev": rng.randrange(8), "arg": rng.randrange(1 << 16),
                     "gap": rng.choice([0.0, 0.3, 1.0, 3.0, 10.0, 45.0]) if not long_history else rng.choice([0.0, 0.3, 1.0]),
                     "overlap": rng.random() < 0.1})
        if rng.random() < 0.2:
            plan[-1]["twin"] = True
            plan[-1]["double"] = rng.random() < 0.5
        if rng.random() < 0.15:
            # issue the command in the very moment one of the library's own periodic requests is in flight (it queues on the lock
            # behind the facade's watercare poll / the refresh / a ping, whose stale answer is then processed first)
            plan[-1]["sync"] = rng.choice(["GETWC", "GETWC", "STATU", "APING"])
        if rng.random() < 0.15:
            # the caller gives up on the request (its own timeout, a cancelled task) after this long -- possibly while it still queues behind
            # a request of the library -- and then asks for the very same thing again
            plan[-1]["abandon"] = rng.choice([0.0, 0.0, 0.002, 0.02, 0.1, 0.5])
    # make sure every on/off device is exercised from both states
    for d in range(4):
        plan += [{"op": "switch_on", "dev": d, "arg": 0, "gap": 0.5, "overlap": False}, {"op": "switch_on", "dev": d, "arg": 0, "gap": 0.5, "overlap": False},
                 {"op": "switch_off", "dev": d, "arg": 0, "gap": 0.5, "overlap": False}, {"op": "switch_off", "dev": d, "arg": 0, "gap": 0.5, "overlap": False}]
    rng.shuffle(plan)
    cfg = {"snapshot": snap, "net": {"lat_min": 0.001, "lat_max": 0.02}, "loop": {"cost_small_p": 0.2, "cost_small_max": 0.001},
           "tables": None}
    if rng.random() < 0.25:
        cfg["loop"].update(wall_jump_p=0.002, wall_jump_max=rng.choice([5.0, 3600.0, 86400.0]))      # the wall clock steps; monotonic time does not
    if rng.random() < 0.3:
        from sim.system import draw_firmware

        cfg["firmware"] = draw_firmware(rng)
    if rng.random() < 0.4:
        # tuning knob: a request timeout shorter than the time the library's own refresh holds the connection (26 segments x 50 ms), so
        # that a command issued behind it waits for the lock longer than one timeout
        T = rng.choice([1, 1, 2])
        cfg["tables"] = {"active": {"PROTOCOL_TIMEOUT_IN_SECONDS": T}, "idle": {"PROTOCOL_TIMEOUT_IN_SECONDS": T}}
    return {"property": PROP, "world": "A", "seed": seed, "cfg": cfg, "plan": plan}


def decode_spack(raw: bytes) -> Dict[str, Any]:
    """Independent decode of a SPACK datagram (layout from the in.touch2 protocol, not from the repo's handler)."""
    out: Dict[str, Any] = {"ok": False}
    if not raw.startswith(b"SPACK") or len(raw) < 9:
        return out
    out["seq"], out["pack_type"], out["len"], out["cmd"] = raw[5], raw[6], raw[7], raw[8]
    body = raw[9:]
    if out["cmd"] == 57:
        out["ok"] = out["len"] == 2 and len(body) == 1
        out["key"] = body[0] if body else None
    elif out["cmd"] == 70:
        if len(body) >= 5:
            out["cfg"], out["log"] = body[0], body[1]
            out["pos"] = struct.unpack(">H", body[2:4])[0]
            out["data"] = body[4:]
            out["ok"] = out["len"] == 5 + len(out["data"]) and len(out["data"]) in (1, 2)
    return out


def build_command(op: Dict[str, Any], ci: int, facade, spa, res: RunResult, snapshot: str, sync: bool, model=None):
    """Translate a plan op into (ctx, expect, thunk); thunk() issues the facade command (returns a coroutine in the async world).
    Returns None when the configuration has no such device."""
    from geckolib import GeckoConstants

    switches = sorted(list(facade.blowers) + list(facade.lights), key=lambda d: d.key) if sync else list(facade.blowers) + list(facade.lights)
    pumps = sorted(facade.pumps, key=lambda d: d.key) if sync else list(facade.pumps)
    kind = op["op"]
    ctx = f"command#{ci} {kind} snapshot={snapshot}"
    expect: Dict[str, Any] = {"n": 1}
    thunk = None
    if kind == "pump_mode":
        if not pumps:
            return None
        p = pumps[op["dev"] % len(pumps)]
        modes = list(p.modes)
        mode = modes[op["arg"] % len(modes)]
        demand = p._user_demand["demand"] if hasattr(p, "_user_demand") else None
        if demand is None:
            raise HarnessError("GeckoPump._user_demand no longer exists")
        expect.update(kind="set", tag=demand, value=mode)
        ctx += f" {p.key} -> {mode}"
        thunk = (lambda: p.set_mode(mode)) if sync else (lambda: p.async_set_mode(mode))
        res.probe("pump_mode:" + mode)
    elif kind in ("switch_on", "switch_off"):
        if not switches:
            return None
        s = switches[op["dev"] % len(switches)]
        on = kind == "switch_on"
        props = (None, None, STATE_ITEM[s.key])
        # the current state is read from the spa's own state item (the network is quiet: the client mirrors it), not from the
        # library's is_on
        was_on = _is_on(model.structure.accessors[props[2]]) if model is not None else bool(s.is_on)
        if was_on != bool(s.is_on):
            res.probe("is_on_differs_from_spa_state")
        ctx += f" {s.key} was_on={was_on}"
        if was_on == on:
            expect.update(n=0)
            res.probe(f"{'on' if on else 'off'}_when_already:{type(s).__name__}")
        else:
            expect.update(kind="key", key=KEYPAD[s.key], state_tag=props[2], on=on, switch=s)
            res.probe(f"{'on' if on else 'off'}_from_{'on' if was_on else 'off'}:{type(s).__name__}")
        if sync:
            thunk = s.turn_on if on else s.turn_off
        else:
            thunk = s.async_turn_on if on else s.async_turn_off
    elif kind in ("eco_on", "eco_off"):
        s = facade.eco_mode
        if s is None:
            return None
        on = kind == "eco_on"
        was_on = _is_on(model.structure.accessors[GeckoConstants.KEY_ECON_ACTIVE]) if model is not None else bool(s.is_on)
        ctx += f" eco was_on={was_on}"
        if was_on == on:
            expect.update(n=0)
            res.probe("eco_already")
        else:
            expect.update(kind="set", tag=GeckoConstants.KEY_ECON_ACTIVE, value=on, switch=s, on=on)
            res.probe("eco_" + ("on" if on else "off"))
        if sync:
            thunk = s.turn_on if on else s.turn_off
        else:
            thunk = s.async_turn_on if on else s.async_turn_off
    elif kind == "target_temp":
        h = facade.water_heater
        if not h.is_present:
            return None
        lo, hi = h.min_temp, h.max_temp
        t = lo + (op["arg"] % 1000) / 1000.0 * (hi - lo)
        t = round(t, 1) if op["arg"] % 2 else float(int(t))
        expect.update(kind="set", tag=GeckoConstants.KEY_SETPOINT_G, temp=t, unit=h.temperature_unit)
        ctx += f" -> {t}{h.temperature_unit}"
        thunk = (lambda: h.set_target_temperature(t)) if sync else (lambda: h.async_set_target_temperature(t))
        res.probe("target_temp_" + ("C" if "C" in h.temperature_unit else "F"))
    elif kind == "temp_unit":
        h = facade.water_heater
        u = ["C", "F", "°C", "°F", "f", "c"][op["arg"] % 6]
        want_u = "F" if u in ("°F", "f", "F") else "C"
        cur = spa.accessors[GeckoConstants.KEY_TEMP_UNITS].value
        expect.update(kind="set", tag=GeckoConstants.KEY_TEMP_UNITS, value=want_u)
        ctx += f" -> {u}"
        thunk = (lambda: h.set_temperature_unit(u)) if sync else (lambda: h.async_set_temperature_unit(u))
        res.probe("unit_" + want_u + ("_same" if cur == want_u else "_change"))
    elif kind in ("watercare_idx", "watercare_label"):
        wc = facade.water_care
        idx = op["arg"] % 5
        arg: Any = idx if kind == "watercare_idx" else GeckoConstants.WATERCARE_MODE_STRING[idx]
        expect.update(kind="setwc", mode=idx)
        ctx += f" -> {arg!r}"
        thunk = (lambda: wc.set_mode(arg)) if sync else (lambda: wc.async_set_mode(arg))
        res.probe("watercare_" + ("index" if kind == "watercare_idx" else "label"))
    if thunk is None:
        return None
    return ctx, expect, thunk


def judge(world, ctx: str, expect: Dict[str, Any], real: List[Dict[str, Any]], model, spa, facade, ident) -> None:
    """The oracle for one command: `real` = the (non-duplicate) command datagrams that reached the model spa for it."""
    res = world.result
    want_type, want_cfg, want_log = ident

    def spa_acc(tag: str):
        return model.structure.accessors[tag]

    if len(real) != expect["n"]:
        world.violate(PROP, "command-count", f"{ctx}: {len(real)} command datagram(s) reached the spa, expected {expect['n']}: "
                      f"{[c['raw'][:16] for c in real]}", sig="command-count:" + ("extra" if len(real) > expect["n"] else "missing"))
    if expect["n"] == 0 or not real:
        return
    c = real[0]
    if expect["kind"] == "setwc":
        if c["kind"] != "setwc":
            world.violate(PROP, "wrong-command", f"{ctx}: expected SETWC, spa received {c['raw'][:12]!r}")
        raw = c["raw"]
        if len(raw) != 7 or raw[6] != expect["mode"]:
            world.violate(PROP, "wrong-write", f"{ctx}: SETWC content {raw!r}, expected mode {expect['mode']}")
        if not (1 <= raw[5] <= 191):
            world.violate(PROP, "sequence-range", f"{ctx}: SETWC sequence {raw[5]} outside 1..191")
        if model.watercare_mode != expect["mode"]:
            world.violate(PROP, "wrong-write", f"{ctx}: spa watercare mode is {model.watercare_mode}")
        if facade.water_care.mode != expect["mode"]:
            world.violate(PROP, "readback", f"{ctx}: facade watercare mode reads {facade.water_care.mode}")
        return
    if c["kind"] != "spack":
        world.violate(PROP, "wrong-command", f"{ctx}: expected SPACK, spa received {c['raw'][:12]!r}")
    d = decode_spack(c["raw"])
    if not d["ok"]:
        world.violate(PROP, "malformed-command", f"{ctx}: SPACK not well-formed: {c['raw']!r} -> {d}")
    if not (192 <= d["seq"] <= 255):
        world.violate(PROP, "sequence-range", f"{ctx}: SPACK sequence {d['seq']} outside the command range 192..255")
    if d["pack_type"] != want_type:
        world.violate(PROP, "wrong-pack-identity", f"{ctx}: SPACK pack type {d['pack_type']}, connected pack is type {want_type}")
    if expect["kind"] == "key":
        if d["cmd"] != 57 or d.get("key") != expect["key"]:
            world.violate(PROP, "wrong-write", f"{ctx}: expected key press {expect['key']}, spa received cmd={d['cmd']} key={d.get('key')}")
        sw = expect["switch"]
        spa_on = _is_on(spa_acc(expect["state_tag"]))
        if spa_on != expect["on"]:
            world.violate(PROP, "wrong-write", f"{ctx}: after the key press the spa's {expect['state_tag']} reads on={spa_on}")
        if bool(sw.is_on) != expect["on"]:
            world.violate(PROP, "readback", f"{ctx}: after the echo the facade device reads is_on={sw.is_on}")
        return
    # set value
    if d["cmd"] != 70:
        world.violate(PROP, "wrong-write", f"{ctx}: expected a set-value command, spa received cmd={d['cmd']}")
    if d["cfg"] != want_cfg or d["log"] != want_log:
        world.violate(PROP, "wrong-pack-identity", f"{ctx}: SPACK carries config/log versions {d['cfg']}/{d['log']}, connected pack has {want_cfg}/{want_log}")
    sa = spa_acc(expect["tag"])
    if not (sa.pos == d["pos"] and sa.length == len(d["data"])):
        world.violate(PROP, "wrong-write", f"{ctx}: write at {d['pos']} len {len(d['data'])}, item {expect['tag']} lives at {sa.pos} len {sa.length}")
    # nothing but the item's own bits changed in the field
    if sa.bitpos is not None:
        fmt = ">B" if sa.length == 1 else ">H"
        old_f = struct.unpack(fmt, c["before"][sa.pos:sa.pos + sa.length])[0]
        new_f = struct.unpack(fmt, d["data"])[0]
        item_mask = sa.bitmask << sa.bitpos
        if (old_f ^ new_f) & ~item_mask:
            world.violate(PROP, "collateral-bits", f"{ctx}: write {new_f:#x} over {old_f:#x} changes bits outside {expect['tag']}'s mask {item_mask:#x}")
        res.probe("bitfield_write")
    if "temp" in expect:
        sv = sa.value
        cv = spa.accessors[expect["tag"]].value
        tol = 1 / 18.0 + 1e-9 if "C" in expect["unit"] else 0.1 + 1e-9
        if abs(sv - expect["temp"]) > tol:
            world.violate(PROP, "wrong-write", f"{ctx}: spa setpoint reads {sv}, requested {expect['temp']}")
        if cv != sv or abs(facade.water_heater.target_temperature - expect["temp"]) > tol:
            world.violate(PROP, "readback", f"{ctx}: facade target reads {facade.water_heater.target_temperature}, spa has {sv}")
    else:
        sv = sa.value
        if sv != expect["value"]:
            world.violate(PROP, "wrong-write", f"{ctx}: spa item {expect['tag']} reads {sv!r} after the write, requested {expect['value']!r}")
        cv = spa.accessors[expect["tag"]].value
        if cv != expect["value"]:
            world.violate(PROP, "readback", f"{ctx}: after the echo the client reads {expect['tag']}={cv!r}, requested {expect['value']!r}")
        if "switch" in expect and bool(expect["switch"].is_on) != expect["on"]:
            world.violate(PROP, "readback", f"{ctx}: eco switch reads is_on={expect['switch'].is_on}")


async def scenario(world: WorldA) -> None:
    import os

    cfg = world.cfg
    res = world.result
    res.faultfree = True
    world.net.healed = False
    sysm = System(world)
    model = sysm.peer.sim
    snap = load_snapshot(os.path.join(repo_root(), "tests", "snapshots", cfg["snapshot"]))
    ident = (model.pack_type, snap.config_version, snap.log_version)

    async with sysm.man as man:
        await sysm.wait_connected()
        facade = man.facade
        spa = facade.spa
        inflight: List[asyncio.Task] = []

        async def settle() -> None:
            # wait for the echo to be consumed: network quiet and the connection's queue empty
            await world.quiesce(extra_idle=0.35, cap=60.0, queues=[spa._protocol.queue] if spa._protocol is not None else None)

        sent_verb: Dict[str, asyncio.Event] = {}

        def tap(kind, rec) -> None:
            if kind == "tx" and rec.src[0] != SPA_IP:
                ev = sent_verb.get(rec.verb)
                if ev is not None:
                    ev.set()
        world.net.taps.append(tap)

        accounted = {"n": len(model.commands), "ctx": "(before the first command)"}

        def unaccounted() -> None:
            # every command datagram at the spa belongs to the facade command that was judged for it: anything that arrives later
            # (a retransmission after the command had long been answered) is an extra command
            extra = list(model.commands[accounted["n"]:])
            if extra:
                world.violate(PROP, "command-count", f"{len(extra)} more command datagram(s) reached the spa after {accounted['ctx']} had been "
                              f"answered and judged: {[c['raw'][:12] for c in extra[:4]]}", sig="command-count:extra-late")

        for ci, op in enumerate(world.case["plan"]):
            unaccounted()
            if man.facade is not facade or not spa.is_connected:
                raise HarnessError("connection was lost on a benign network")
            if op["gap"]:
                await asyncio.sleep(op["gap"])
            unaccounted()
            if op.get("sync"):
                ev = sent_verb[op["sync"]] = asyncio.Event()
                try:
                    await asyncio.wait_for(ev.wait(), 125.0)
                    res.probe("command_right_after_library_sent_" + op["sync"])
                except asyncio.TimeoutError:
                    res.probe("sync_verb_not_seen")
                del sent_verb[op["sync"]]
            gate_closed = not spa.is_responding_to_pings
            if gate_closed:
                res.probe("gate_closed_at_command")
            unaccounted()
            mark = len(model.commands)
            twin = bool(op.get("twin")) and not op["op"].startswith("watercare")
            built = build_command(op, ci, facade, spa, res, cfg["snapshot"], sync=twin, model=model)
            if built is None:
                continue
            ctx, expect, thunk = built
            res.stats["commands"] = res.stats.get("commands", 0) + 1
            if twin:
                # the blocking-style twin on the async facade: it returns at once, the command is carried out by a task of the library.
                # With "double" a second command of the same kind (value write / key press) on another item is issued in the same instant.
                ctx = "[sync twin] " + ctx
                res.probe("sync_twin_on_async_facade")
                second = None
                if op.get("double"):
                    op2 = dict(op, dev=op["dev"] + 1)
                    if op["op"] in ("pump_mode", "eco_on", "eco_off"):
                        op2["op"] = "temp_unit"
                    elif op["op"] in ("temp_unit", "target_temp"):
                        op2["op"] = "pump_mode"      # (not the unit together with the target: the unit changes how the target reads)
                    second = build_command(op2, ci, facade, spa, res, cfg["snapshot"], sync=True, model=model)
                    if second is not None and (second[1].get("tag"), second[1].get("key")) == (expect.get("tag"), expect.get("key")):
                        second = None
                try:
                    thunk()
                    if second is not None:
                        second[2]()
                        res.probe("two_sync_twins_in_one_instant")
                except Exception as e:
                    world.violate(PROP, "command-raised", f"{ctx}: raised {type(e).__name__}: {e}")
                await asyncio.sleep(0.05)
                await settle()
                real = list(model.commands[mark:])
                n1 = expect["n"]
                if gate_closed and len(real) < n1 + (second[1]["n"] if second is not None else 0):
                    from geckolib.config import GeckoConfig as _GC2
                    world.note(PROP, "command-dropped", f"{ctx}: silently dropped: is_responding_to_pings was False although the spa answers "
                               f"every ping (2 x PING_FREQUENCY={_GC2.PING_FREQUENCY_IN_SECONDS}s window)", sig="command-dropped:ping-gate-closed-on-benign-network")
                    accounted.update(n=len(model.commands), ctx=ctx)
                    continue
                if second is not None:
                    n2 = second[1]["n"]
                    if len(real) != n1 + n2:
                        world.violate(PROP, "command-count", f"{ctx} together with {second[0]}: {len(real)} command datagram(s) reached the spa, expected "
                                      f"{n1} + {n2}: {[c['raw'][:12] for c in real]}", sig="command-count:" + ("extra" if len(real) > n1 + n2 else "missing"))
                    judge(world, ctx, expect, real[:n1], model, spa, facade, ident)
                    judge(world, "[sync twin] " + second[0], second[1], real[n1:n1 + n2], model, spa, facade, ident)
                else:
                    judge(world, ctx, expect, real, model, spa, facade, ident)
                accounted.update(n=len(model.commands), ctx=ctx)
                continue
            if op.get("abandon") is not None and op["op"] in ("target_temp", "pump_mode", "temp_unit", "watercare_idx", "watercare_label") and not gate_closed:
                first = asyncio.ensure_future(thunk())
                first.set_name(f"HARNESS:abandoned-{ci}")
                await asyncio.sleep(op["abandon"])
                if not first.done():
                    first.cancel()
                    res.probe("caller_gave_up_on_a_command" + ("_queued_behind_a_library_request" if op.get("sync") else ""))
                try:
                    await first
                except asyncio.CancelledError:
                    pass
                except Exception as e:
                    world.violate(PROP, "command-raised", f"{ctx} (abandoned after {op['abandon']}s): raised {type(e).__name__}: {e}")
                await settle()
                # what the abandoned request put on the wire (nothing or one command) is not counted; the same request is now made again and
                # judged like any other
                ctx = f"[again after the caller gave up {op['abandon']}s into the first request] " + ctx
                gate_closed = not spa.is_responding_to_pings
                mark = len(model.commands)
                accounted.update(n=mark, ctx=ctx)
            if op.get("overlap") and expect["n"] == 1:
                # issue it while another request is in flight (it queues on the protocol lock)
                inflight.append(asyncio.create_task(spa.async_get_reminders(), name=f"HARNESS:bg-{ci}"))
                res.probe("command_while_another_in_flight")
            from geckolib.config import GeckoConfig
            res.probe("in_active_mode" if GeckoConfig.PING_FREQUENCY_IN_SECONDS < 30 else "in_idle_mode")
            try:
                await thunk()
            except Exception as e:
                world.violate(PROP, "command-raised", f"{ctx}: raised {type(e).__name__}: {e}")
            await settle()
            cmds = model.commands[mark:]
            # the network of this check never duplicates: a datagram the spa recognises as a repetition (same sequence number) was sent
            # twice by the client and counts
            real = list(cmds)
            if len(real) == 0 and expect["n"] == 1 and gate_closed:
                # the spa answers every ping on this benign network, yet the library's ping gate was closed and the command
                # was dropped without any error: recorded (not raised) so that the rest of the history is still judged
                world.note(PROP, "command-dropped", f"{ctx}: silently dropped: is_responding_to_pings was False although the spa answers "
                           f"every ping (last reply older than 2 x PING_FREQUENCY={GeckoConfig.PING_FREQUENCY_IN_SECONDS}s after the timing table changed "
                           f"or while the lock delayed the ping)", sig="command-dropped:ping-gate-closed-on-benign-network")
                continue
            judge(world, ctx, expect, real, model, spa, facade, ident)
            accounted.update(n=len(model.commands), ctx=ctx)
        unaccounted()
        for t in inflight:
            if not t.done():
                await asyncio.wait([t], timeout=60)
        # the client mirrors the spa after the whole history
        await settle()
        if spa.struct.status_block != model.structure.status_block:
            diff = [i for i in range(1024) if spa.struct.status_block[i] != model.structure.status_block[i]]
            world.violate(PROP, "readback", f"after the command history the client block differs from the spa's at {diff[:8]}")
    if len([c for c in model.commands if c["kind"] == "spack" and not c.get("dup")]) > 64:
        res.probe("more_than_a_full_cycle_of_pack_commands")
    res.nontrivial = res.stats.get("commands", 0) > 0
    res.shape = format(mix(0, repr(sorted(res.probes.items()))), "x")
    res.sample = {"snapshot": cfg["snapshot"], "commands": int(res.stats.get("commands", 0)), "first": world.case["plan"][:5]}


def _is_on(acc) -> bool:
    v = acc.value
    if isinstance(v, bool):
        return v
    return v not in ("OFF", "")


def run_case(case: Dict[str, Any], replay: Optional[Dict[str, Any]] = None, keep_log: bool = False) -> RunResult:
    if case.get("world") == "T":
        from props import c13_t

        return c13_t.run_case(case, replay, keep_log)
    world = WorldA(case, replay, keep_log=keep_log)
    return world.run(scenario)


# ---------------------------------------------------------------------------------------------------
BUDGET = {"quick": 50, "thorough": 600}
RULE = ("Every shipped snapshot in turn: the real client connects to the model spa loaded with it, waits for one facade update, then a "
        "seeded history of 26-76 facade commands (pump mode for every mode, blower/light/eco on and off from both current states, "
        "target temperature in the heater's range, temperature unit in all accepted spellings, watercare by index and by label), at "
        "drawn instants (0-45 s apart, so both the active and the idle timing table are in force), some while another request is in "
        "flight, on a benign network (1-20 ms latency, no loss). The model spa applies set-value bytes / toggles the key's device and "
        "echoes a partial update. Non-trivial = at least one command executed; distinct = distinct event-log digest.")
SHAPE_MEASURE = "hash of the multiset of (command kind x device class x start state) probes of the run"
COMPONENTS = {
    "real": ["GeckoAsyncFacade and all automation devices (pump, blower, light, switch, heater, watercare)", "accessors incl. temperature accessor",
             "GeckoAsyncSpa.async_press/_on_async_set_value/async_set_watercare", "GeckoPackCommandProtocolHandler / GeckoWatercareProtocolHandler encoders",
             "request engine, partial-update path", "GeckoSimulator engine"],
    "stub": ["what a spa does with a command -> ModelSpa (applies the bytes / toggles the two-valued state of the key's device, stores the watercare mode, echoes STATP)",
             "sockets/clock/selector"],
}
ASSUMPTIONS = [
    "benign network only (the statement quantifies over inputs and command histories, not faults)",
    "a key press toggles the two-valued state item of its device (all shipped switch items are [OFF, ON|HI])",
    "temperature read-back is compared within one raw unit (1/18 C or 0.1 F); exact raw arithmetic is C14's business",
    "SPACK/SETWC layouts are decoded independently in the harness",
]
PROBES = ["caller_gave_up_on_a_command", "caller_gave_up_on_a_command_queued_behind_a_library_request", "sync_twin_on_async_facade", "two_sync_twins_in_one_instant", "blocking_command", "two_blocking_commands_for_one_setting_in_one_instant", "blocking_watercare_command_while_a_poll_is_in_flight", "command_right_after_library_sent_GETWC", "more_than_a_full_cycle_of_pack_commands", "command_while_another_in_flight", "in_active_mode", "in_idle_mode", "eco_on", "eco_off", "watercare_index", "watercare_label",
          "on_from_off:GeckoLight", "off_from_on:GeckoLight", "on_when_already:GeckoLight", "off_when_already:GeckoLight",
          "on_from_off:GeckoBlower", "off_from_on:GeckoBlower", "target_temp_C", "target_temp_F"]
N_QUICK = 68


def jobs(tier: str, base_seed: int):
    n = len(snapshot_files())
    if tier == "quick":
        for i in range(0, 10 * n, 4):
            yield {"kind": "seeded", "first": i, "count": 4, "mandatory": True}
    else:
        i = 0
        while True:
            yield {"kind": "seeded", "first": i, "count": 4, "mandatory": i < 4 * n}
            i += 4


def job_cases(job, tier: str, base_seed: int):
    from sim.driver import run_seed

    for i in range(job["first"], job["first"] + job["count"]):
        c = gen_case(run_seed(PROP, base_seed, i), tier, i)
        c["subspace"] = ("blocking:" if c.get("world") == "T" else "") + "snapshot:" + c["cfg"]["snapshot"].split("-")[0]
        yield c


def selftest_case(base_seed: int, tier: str, index: int):
    """Determinism self-test: every third index is a blocking-world case."""
    from sim.driver import run_seed

    n = len(snapshot_files())
    i = 4 * n + index // 3 if index % 3 == 2 else index
    return gen_case(run_seed(PROP, base_seed, i), tier, i)
