"""Harness-side client of the async stack: a GeckoAsyncSpaMan subclass that records everything it is told,
plus recorders that wrap public seams on *instances* (queue put/pop, protocol.get, struct.get, block
installs) so that history oracles can be evaluated without touching the code under test."""

from __future__ import annotations

import asyncio
import contextvars
from typing import Any, Callable, Dict, List, Optional, Tuple

from .core import HarnessError
from .net import SPA_IP, SPA_PORT

SPA_ID = "SPA01:02:03:04:05:06"
SPA_NAME = "Udp Test Spa"

REPLY_VERBS = {
    "APING": ("APING",), "AVERS": ("SVERS",), "CURCH": ("CHCUR",), "SFILE": ("FILES",), "STATU": ("STATV",),
    "GETWC": ("WCGET",), "SETWC": ("WCSET",), "REQRM": ("RMREQ",), "SPACK": ("PACKS",),
}
REQUEST_VERBS = set(REPLY_VERBS)

current_consumer: contextvars.ContextVar = contextvars.ContextVar("verif_consumer", default=None)


def task_name() -> str:
    try:
        t = asyncio.current_task()
    except RuntimeError:
        return "loop"
    return t.get_name() if t is not None else "loop"


_uid = [0]


def task_key() -> str:
    """Name plus a per-task serial: library task names ('SPA:Ping loop') are reused by every new connection."""
    try:
        t = asyncio.current_task()
    except RuntimeError:
        return "loop"
    if t is None:
        return "loop"
    u = getattr(t, "_verif_uid", None)
    if u is None:
        _uid[0] += 1
        u = _uid[0]
        try:
            t._verif_uid = u
        except AttributeError:
            pass
    return f"{t.get_name()}#{u}"


class ClientHandlerError(RuntimeError):
    """Raised by the simulated client's own event handler when the scenario says it fails."""


def make_spaman_class():
    from geckolib import GeckoAsyncSpaMan

    class SimSpaMan(GeckoAsyncSpaMan):
        """The client application: records every event with the state it observes at delivery."""

        def __init__(self, world, client_uuid: str = "verif-0001", **kwargs):
            super().__init__(client_uuid, **kwargs)
            self.world = world
            self.deliveries: List[Dict[str, Any]] = []
            self.suspend_p = float(world.cfg.get("suspend_p", 0.0))
            self.suspend_max = float(world.cfg.get("suspend_max", 0.5))
            self.s_suspend = world.choices.stream("client.suspend")
            self.raise_events = dict(world.cfg.get("raise_events") or {})      # event name -> on which of its deliveries the handler raises
            self._raise_seen: Dict[str, int] = {}
            self.suspend_events = set(world.cfg.get("suspend_events", []))      # events whose delivery always suspends the handler
            self.on_delivery: List[Callable[[Dict[str, Any]], None]] = []
            self.observer_calls = 0

        async def handle_event(self, event, **kwargs) -> None:
            w = self.world
            facade = self.facade
            sensor = self.status_sensor
            d = {
                "seq": w.log.add("event", event.name, self.spa_state.name, facade is not None, task_name()),
                "t": w.now(),
                "cb": w.loop.callbacks,
                "event": event,
                "state": self.spa_state,
                "facade": facade,
                "facade_present": facade is not None,
                "sensor": sensor.state if sensor is not None else None,
                "task": task_name(),
                "task_key": task_key(),
                "task_obj": asyncio.current_task(),
                "kwargs": kwargs,
            }
            want_raise = self.raise_events.get(event.name)
            if want_raise:
                self._raise_seen[event.name] = self._raise_seen.get(event.name, 0) + 1
                if self._raise_seen[event.name] == want_raise:
                    d["raised"] = True
            self.deliveries.append(d)
            for f in self.on_delivery:
                f(d)
            if d.get("raised"):
                # the client's own handler fails on this delivery (a bug of the application): for the library, the step it was in raises
                w.result.fault("client_handler_raises")
                raise ClientHandlerError(f"client handler fails on {event.name}")
            if event.name in self.suspend_events or (self.suspend_p and self.s_suspend.chance(self.suspend_p)):
                dt = self.s_suspend.uniform(0.0, self.suspend_max)
                w.result.fault("client_handler_suspend")
                d["suspended"] = dt
                try:
                    await asyncio.sleep(dt)
                except asyncio.CancelledError:
                    d["cancelled_in_handler"] = True     # the client's own handler was cut: nothing after it can be delivered
                    raise
                d["resumed_seq"] = w.log.seq

    return SimSpaMan


# ---------------------------------------------------------------------------------------------------
# Recorders
# ---------------------------------------------------------------------------------------------------
def _cur_task():
    try:
        return asyncio.current_task()
    except RuntimeError:
        return None


class QueueRecorder:
    """Wraps put_nowait/pop of one AsyncPeekableQueue instance (no change to its behaviour)."""

    def __init__(self, world, queue, label: str):
        self.world = world
        self.queue = queue
        self.label = label
        self.items: List[Dict[str, Any]] = []      # one per put
        self._live: List[Dict[str, Any]] = []      # FIFO mirror
        self.empty_pops: List[Dict[str, Any]] = []
        orig_put = queue.put_nowait
        orig_pop = queue.pop
        rec = self

        def put_nowait(item):
            w = rec.world
            e = {"id": len(rec.items), "item": item, "put_seq": w.log.add("q-put", label, _verb(item[0])), "put_t": w.now(),
                 "put_by": task_name(), "head_t": None, "pops": [], "put_stall": w.clock.stall_total_ns}
            if not rec._live:
                e["head_t"] = w.now()
                e["head_stall"] = w.clock.stall_total_ns
            rec.items.append(e)
            rec._live.append(e)
            return orig_put(item)

        def pop():
            w = rec.world
            if rec._live:
                e = rec._live.pop(0)
                e["pops"].append({"seq": w.log.add("q-pop", label, _verb(e["item"][0]), task_name()), "t": w.now(),
                                  "by": task_name(), "by_obj": _cur_task(), "consumer": current_consumer.get(),
                                  "stall": w.clock.stall_total_ns})
                if rec._live:
                    rec._live[0]["head_t"] = w.now()
                    rec._live[0]["head_stall"] = w.clock.stall_total_ns
            else:
                w.log.add("q-pop-empty", label, task_name())
                rec.empty_pops.append({"t": w.now(), "by": task_name()})
            return orig_pop()

        queue.put_nowait = put_nowait
        queue.pop = pop


def _verb(data: bytes) -> str:
    if data.startswith(b"<PACKT>"):
        return "PACKT"
    if data.startswith(b"<HELLO>"):
        return "HELLO"
    return data[:5].decode("latin1", "replace")


class CallRecorder:
    """Wraps protocol.get and struct.get on instances: one record per request-engine call."""

    def __init__(self, world):
        self.world = world
        self.calls: List[Dict[str, Any]] = []

    def wrap_protocol(self, protocol) -> None:
        import inspect

        orig_get = protocol.get
        rec = self
        default_retries = inspect.signature(orig_get).parameters["retry_count"].default

        async def get(create_func, destination=None, retry_count=None):
            if retry_count is not None:
                configured = retry_count
            elif rec.world.cfg.get("tables") is None and "tables" in rec.world.cfg:
                # shipped timing tables in force: the configured retry count is what the live configuration says now
                from geckolib.config import GeckoConfig as _GC

                configured = int(_GC.PROTOCOL_RETRY_COUNT)
                rec.world.result.probe("retry_count_read_from_the_table_in_force")
            else:
                configured = default_retries
            c = rec._begin("get", configured)
            built: List[Any] = []

            def create():
                r = create_func()
                built.append(r)
                c["built"].append((rec.world.now(), getattr(r, "_timeout_in_seconds", None), r))
                return r
            try:
                if retry_count is None:
                    result = await orig_get(create, destination)
                else:
                    result = await orig_get(create, destination, retry_count)
            except asyncio.CancelledError:
                rec._end(c, "cancelled", None)
                raise
            except BaseException as e:
                rec._end(c, "raised:" + type(e).__name__, None)
                raise
            rec._end(c, "ok" if result is not None else "none", result)
            c["open_at_end"] = bool(getattr(protocol, "isopen", True))
            c["result_is_built"] = result is None or any(result is b for b in built)
            return result

        protocol.get = get

    def wrap_struct(self, struct) -> None:
        orig_get = struct.get
        rec = self

        async def sget(protocol, create_func, retry_count=10):
            c = rec._begin("struct.get", retry_count)

            def create():
                r = create_func()
                c["built"].append((rec.world.now(), getattr(r, "_timeout_in_seconds", None), r))
                return r
            try:
                result = await orig_get(protocol, create, retry_count)
            except asyncio.CancelledError:
                rec._end(c, "cancelled", None)
                raise
            except BaseException as e:
                rec._end(c, "raised:" + type(e).__name__, None)
                raise
            rec._end(c, "ok" if result else "none", result)
            c["open_at_end"] = bool(getattr(protocol, "isopen", True))
            return result

        struct.get = sget

    def _begin(self, kind: str, retries: int) -> Dict[str, Any]:
        w = self.world
        c = {"id": len(self.calls), "kind": kind, "task": task_name(), "retries": retries,
             "invoke_seq": w.log.add("call-invoke", kind, task_name()), "invoke_t": w.now(),
             "return_seq": None, "return_t": None, "outcome": None, "built": [], "net_mark": len(w.net.history),
             "stall0": w.clock.stall_total_ns}
        self.calls.append(c)
        return c

    def _end(self, c: Dict[str, Any], outcome: str, result: Any) -> None:
        w = self.world
        c["outcome"] = outcome
        c["return_seq"] = w.log.add("call-return", c["kind"], c["task"], outcome)
        c["return_t"] = w.now()
        c["net_end"] = len(w.net.history)
        c["stall1"] = w.clock.stall_total_ns


class InstallRecorder:
    """Wraps replace_status_block_segment on one structure instance."""

    def __init__(self, world, struct, label: str, on_install: Optional[Callable[[Dict[str, Any]], None]] = None):
        self.world = world
        self.struct = struct
        self.label = label
        self.installs: List[Dict[str, Any]] = []
        self.on_install = on_install
        self._orig = struct.replace_status_block_segment
        rec = self

        def replace(offset, segment):
            w = rec.world
            before = rec.struct.status_block
            e = {"seq": w.log.add("install", label, offset, len(segment), task_name()), "t": w.now(),
                 "offset": offset, "segment": bytes(segment), "before": before, "by": task_name(),
                 "consumer": current_consumer.get()}
            rec.installs.append(e)
            pre = getattr(rec, "pre_install", None)
            if pre is not None:
                pre(e)
            out = rec._orig(offset, segment)
            e["after"] = rec.struct.status_block
            if rec.on_install is not None:
                rec.on_install(e)
            return out

        struct.replace_status_block_segment = replace

    def unwrap(self) -> None:
        try:
            del self.struct.replace_status_block_segment
        except AttributeError:
            pass


def find_task(prefix: str) -> List[asyncio.Task]:
    return sorted((t for t in asyncio.all_tasks() if t.get_name().startswith(prefix)), key=lambda t: t.get_name())


def library_tasks() -> List[asyncio.Task]:
    return sorted((t for t in asyncio.all_tasks() if not t.get_name().startswith("HARNESS:") and not t.done()),
                  key=lambda t: t.get_name())
