"""World A: the asyncio stack under the virtual-time loop."""

from __future__ import annotations

import asyncio
import gc
import sys
from typing import Any, Awaitable, Callable, Dict, List, Optional

from .core import Choices, Clock, EventLog, HarnessError, RunResult, Violation
from .loop import SimDeadlock, SimLoop
from .net import SimNet
from .seams import Seams


class WorldA:
    def __init__(self, case: Dict[str, Any], replay: Optional[Dict[str, Any]] = None, keep_log: bool = True):
        import copy

        # a run never mutates the case it was given (the case is what a replay file records)
        self.case = case = copy.deepcopy(case)
        self.cfg: Dict[str, Any] = case.get("cfg", {})
        self.seed: int = int(case["seed"])
        self.result = RunResult()
        self.clock = Clock()
        self.choices = Choices(self.seed, replay)
        self.log = EventLog(self.clock, keep=keep_log)
        self.net = SimNet(self.clock, self.choices, self.log, self.cfg.get("net", {}), self.result)
        self.loop = SimLoop(self.clock, self.net, self.choices, self.log, self.cfg.get("loop", {}), self.result)
        self.seams = Seams()
        self.peers: List[Any] = []
        self._installed = False
        self._abort: Optional[Violation] = None
        self._main_task: Optional[asyncio.Task] = None

    # -- lifecycle --------------------------------------------------------------------------------------
    def install(self) -> None:
        from . import client as _client

        _client._uid[0] = 0
        self.seams.quiet_logging()
        self.seams.reset_globals(self.cfg.get("tables"))
        self.seams.install_consts(self.cfg.get("consts"))
        self.seams.install_time(self.clock)
        self.seams.install_random(self.choices.stream("spa.random"))
        self._installed = True

    def violate(self, prop: str, cls: str, msg: str, sig: Optional[str] = None, detail: Any = None) -> None:
        v = Violation(prop, cls, msg, sig, detail)
        self.log.add("VIOLATION", prop, cls, msg)
        # raised in a task other than the scenario's main task (a harness side task, a wrapped library call), the exception would end
        # only that task and nobody might ever look at it: make it the run's verdict and end the run
        try:
            cur = asyncio.current_task()
        except RuntimeError:
            cur = None
        if cur is not None and self._main_task is not None and cur is not self._main_task and not self._main_task.done():
            if self._abort is None:
                self._abort = v
            self._main_task.cancel()
        raise v

    def note(self, prop: str, cls: str, msg: str, sig: Optional[str] = None, detail: Any = None) -> None:
        """Record a violation without stopping the run (one per signature)."""
        v = Violation(prop, cls, msg, sig, detail)
        if not any(x.sig == v.sig for x in self.result.violations):
            self.log.add("VIOLATION", prop, cls, msg)
            self.result.violations.append(v)

    def abort(self, prop: str, cls: str, msg: str, sig: Optional[str] = None) -> None:
        """A verdict reached by a watchdog task while the main task is stuck (e.g. inside a context exit that never returns):
        record it and end the run by cancelling the main task."""
        self._abort = Violation(prop, cls, msg, sig)
        self.log.add("VIOLATION", prop, cls, msg)
        if self._main_task is not None and not self._main_task.done():
            self._main_task.cancel()

    def now(self) -> float:
        return self.clock.peek()

    def run(self, main: Callable[["WorldA"], Awaitable[None]]) -> RunResult:
        """Run `main(world)` to completion under the simulator and return the RunResult."""
        res = self.result
        loop = self.loop
        old_loop = None
        try:
            self.install()
            asyncio.set_event_loop(None)
            task = loop.create_task(main(self), name="HARNESS:main")
            self._main_task = task
            try:
                loop.run_until_complete(task)
            except Violation as v:
                res.violations.append(v)
            except asyncio.CancelledError:
                if self._abort is None:
                    raise
                res.violations.append(self._abort)
            except SimDeadlock as e:
                raise HarnessError(f"deadlock: {e}; main task state: {task!r}")
            finally:
                self._drain()
        finally:
            try:
                for p in self.peers:
                    try:
                        p.stop()
                    except Exception:
                        pass
                if not loop.is_closed():
                    loop.close()
            finally:
                self.seams.restore()
                asyncio.set_event_loop(None)
        res.digest = self.log.digest()
        res.sim_seconds = self.clock.peek()
        res.callbacks = loop.callbacks
        res.choices = self.choices.recorded()
        if self.log._keep:
            res.log = self.log.entries
        for k, v in self.choices.counts().items():
            if v:
                res.stats["draws." + k] = v
        return res

    def _drain(self) -> None:
        """Cancel whatever is left and let cancellations run (bounded), so nothing leaks across runs."""
        loop = self.loop
        loop.stalls_on = False
        loop.monitors.clear()
        loop.crash_hook = None
        for _ in range(5):
            pending = [t for t in asyncio.all_tasks(loop) if not t.done()]
            if not pending:
                break
            for t in pending:
                t.cancel()
            g = asyncio.gather(*pending, return_exceptions=True)
            try:
                loop.run_until_complete(asyncio.wait_for(_shield_wait(g), timeout=400))
            except (SimDeadlock, HarnessError, asyncio.TimeoutError, asyncio.CancelledError):
                break
            except Exception:
                break

    # -- helpers for scenarios ------------------------------------------------------------------------------
    async def sleep(self, d: float) -> None:
        await asyncio.sleep(d)

    async def quiesce(self, extra_idle: float = 0.3, cap: float = 60.0, queues: Optional[List[Any]] = None) -> None:
        """Wait until SimNet has nothing in flight and the given receive queues are empty."""
        t0 = self.now()
        idle_since = None
        while True:
            busy = self.net.in_flight() > 0
            if not busy and queues:
                busy = any(q.qsize() > 0 for q in queues)
            if not busy:
                for p in self.peers:
                    eng = getattr(p, "engine", None)
                    if eng is not None and (eng.gsocket._send_handlers or eng.sock.inbox):
                        busy = True
            if busy:
                idle_since = None
            else:
                if idle_since is None:
                    idle_since = self.now()
                elif self.now() - idle_since >= extra_idle:
                    return
            if self.now() - t0 > cap:
                raise HarnessError("quiesce cap exceeded")
            await asyncio.sleep(0.05)


async def _shield_wait(g):
    return await g
