"""SimLoop — a virtual-time asyncio event loop with the same iteration structure as CPython's.

Each iteration: (1) datagrams whose arrival time has come become ready callbacks, (2) timers whose
deadline has passed are moved to the ready queue in deadline order, (3) the callbacks that were ready at
that moment run FIFO.  When nothing is ready the clock jumps to the next timer or arrival.  After every
callback an injected *cost* (drawn from the run's PRNG) may advance the clock; that is the only schedule
perturbation, and it is one a real loop can produce.
"""

from __future__ import annotations

import asyncio
import heapq
from asyncio import events
from typing import Any, Callable, Dict, List, Optional

from .core import Choices, Clock, EventLog, HarnessError, RunResult
from .net import CLIENT_IP, SimNet, SimTransport


class SimDeadlock(Exception):
    """Nothing is ready, nothing is scheduled and nothing is in flight, yet the main coroutine waits."""


class SimLoop(asyncio.BaseEventLoop):
    def __init__(self, clock: Clock, net: SimNet, choices: Choices, log: EventLog, cfg: Dict[str, Any],
                 result: RunResult):
        super().__init__()
        self._clock_resolution = 1e-9
        self.clock = clock
        self.net = net
        self.log = log
        self.cfg = cfg
        self.result = result
        self.s_cost = choices.stream("loop.cost")
        self.monitors: List[Callable[[], None]] = []
        self.callbacks = 0
        self.max_callbacks = int(cfg.get("max_callbacks", 3_000_000))
        self.max_time = float(cfg.get("max_time", 1e7))
        self.transports: List[SimTransport] = []
        self.task_errors: List[Any] = []
        self.stalls_on = True
        self._p_small = float(cfg.get("cost_small_p", 0.0))
        self._small_max = float(cfg.get("cost_small_max", 0.001))
        self._p_stall = float(cfg.get("cost_stall_p", 0.0))
        self.s_wall = choices.stream("clock.wall")
        self._p_wall = float(cfg.get("wall_jump_p", 0.0))
        self._wall_max = float(cfg.get("wall_jump_max", 86400.0))
        self._stall_min = float(cfg.get("cost_stall_min", 0.05))
        self._stall_max = float(cfg.get("cost_stall_max", 0.5))
        self.crash_hook: Optional[Callable[[int], None]] = None   # called with callback index
        self.endpoint_hooks: List[Callable[[Any, Any], None]] = []   # (transport, protocol) at creation
        self.host_ip = CLIENT_IP
        self.set_exception_handler(self._on_exception)
        net.who = self._who

    # -- identity of the running task (sender attribution) -------------------------------------------
    def _who(self) -> str:
        try:
            t = asyncio.current_task(self)
        except RuntimeError:
            t = None
        return t.get_name() if t is not None else "loop"

    # -- clock -------------------------------------------------------------------------------------
    def time(self) -> float:
        return self.clock.read()

    # -- things BaseEventLoop expects ------------------------------------------------------------------
    def _process_events(self, event_list):  # pragma: no cover
        pass

    def _write_to_self(self):
        pass

    def _sim_add_ready(self, callback, *args) -> None:
        self._ready.append(events.Handle(callback, args, self, None))

    def _on_exception(self, loop, context) -> None:
        exc = context.get("exception")
        msg = context.get("message")
        self.task_errors.append((self.clock.peek(), msg, repr(exc)))
        self.log.add("loop-exception", str(msg), type(exc).__name__ if exc else None)

    # -- the iteration -------------------------------------------------------------------------------
    def _run_once(self):
        sched = self._scheduled
        while sched and sched[0]._cancelled:
            self._timer_cancelled_count -= 1
            h = heapq.heappop(sched)
            h._scheduled = False

        clock = self.clock
        net = self.net
        if not self._ready and not self._stopping:
            nxt: Optional[int] = None
            if sched:
                nxt = int(sched[0]._when * 1e9) + 1
            nt = net.next_time_ns()
            if nt is not None and (nxt is None or nt < nxt):
                nxt = nt
            if nxt is None:
                raise SimDeadlock("event loop has nothing to do")
            clock.advance_to(nxt)
            if clock.ns / 1e9 > self.max_time:
                raise HarnessError(f"virtual time cap {self.max_time}s exceeded")

        # (1) network events that are due
        if net._heap and net._heap[0][0] <= clock.ns:
            net.deliver_due(clock.ns)

        # (2) timers that are due, in deadline order
        end_time = clock.read() + self._clock_resolution
        while sched:
            h = sched[0]
            if h._when >= end_time:
                break
            h = heapq.heappop(sched)
            h._scheduled = False
            self._ready.append(h)

        # (3) run what was ready at this moment, FIFO
        ready = self._ready
        ntodo = len(ready)
        s_cost = self.s_cost
        p_small = self._p_small
        p_stall = self._p_stall
        monitors = self.monitors
        for _ in range(ntodo):
            h = ready.popleft()
            if h._cancelled:
                continue
            self.callbacks += 1
            h._run()
            if self.stalls_on and (p_small or p_stall):
                if p_stall and s_cost.chance(p_stall):
                    d = s_cost.uniform(self._stall_min, self._stall_max)
                    clock.inject(int(d * 1e9))
                    self.result.fault("loop_stall")
                elif p_small and s_cost.chance(p_small):
                    d = s_cost.uniform(0.0, self._small_max)
                    clock.inject(int(d * 1e9))
            if self._p_wall and self.stalls_on and self.s_wall.chance(self._p_wall):
                # the wall clock steps (forwards or backwards); monotonic time is unaffected
                clock.wall_offset_ns += int(self.s_wall.uniform(-self._wall_max, self._wall_max) * 1e9)
                self.result.fault("wall_clock_jump")
            if monitors:
                for m in monitors:
                    m()
            if self.crash_hook is not None:
                self.crash_hook(self.callbacks)
        h = None
        if self.callbacks > self.max_callbacks:
            raise HarnessError(f"callback cap {self.max_callbacks} exceeded")

    # -- datagram endpoints ----------------------------------------------------------------------------
    async def create_datagram_endpoint(self, protocol_factory, local_addr=None, remote_addr=None, *,
                                       family=0, proto=0, flags=0, reuse_port=None,
                                       allow_broadcast=None, sock=None):
        protocol = protocol_factory()
        local = self.net.ephemeral(self.host_ip)
        label = f"ep{len(self.transports)}"
        transport = SimTransport(self, self.net, protocol, local, label)
        self.transports.append(transport)
        self.log.add("endpoint-open", label, local, self._who())
        for hook in self.endpoint_hooks:
            hook(transport, protocol)
        waiter = self.create_future()
        self.call_soon(protocol.connection_made, transport)
        self.call_soon(_set_result_unless_cancelled, waiter, None)
        try:
            await waiter
        except BaseException:
            transport.close()
            raise
        return transport, protocol

    def open_transports(self) -> List[SimTransport]:
        return [t for t in self.transports if not t._closing]


def _set_result_unless_cancelled(fut, result):
    if fut.cancelled():
        return
    fut.set_result(result)
