"""Peers: the repository's own GeckoSimulator run as the spa, plus harness-side application semantics.

Real code: every GeckoSimulator handler, its GeckoStructure, its GeckoUdpSocket engine (`_thread_func`
verbatim).  Harness code: how the engine thread is stepped (World A), and `ModelSpa`'s application
semantics the bundled simulator lacks (applying SPACK writes / key presses, SETWC, STATP bursts, reboot).
"""

from __future__ import annotations

import glob
import importlib
import logging
import os
import struct
from typing import Any, Dict, List, Optional, Tuple

from .core import HarnessError
from .net import SPA_IP, SPA_PORT, FakeSocket, SimNet

_SNAP_CACHE: Dict[str, Any] = {}


def repo_root() -> str:
    return os.environ.get("VERIF_REPO", "/repo")


def snapshot_files() -> List[str]:
    files = sorted(glob.glob(os.path.join(repo_root(), "tests", "snapshots", "*.snapshot")))
    if not files:
        raise HarnessError("no snapshot files found under tests/snapshots")
    return files


def load_snapshot(path: str):
    """Parse a shipped snapshot once per process (GeckoSnapshot objects are treated as immutable)."""
    snap = _SNAP_CACHE.get(path)
    if snap is None:
        import time as _real_time

        import geckolib.driver.udp_protocol_handler as _uph
        from geckolib.utils.snapshot import GeckoSnapshot

        # parsing constructs a protocol handler, which reads the clock: keep the (cached, once per
        # process) parse away from the simulated clock or the first run in a process differs by 1 ns
        saved = _uph.time
        _uph.time = _real_time
        try:
            snaps = GeckoSnapshot.parse_log_file(path)
        finally:
            _uph.time = saved
        if len(snaps) < 1:
            raise HarnessError(f"{path}: no snapshot parsed")
        snap = snaps[0]
        _SNAP_CACHE[path] = snap
    # a shallow copy per use: a run may override what the spa reports (firmware, config/log versions) without touching the cached parse
    import copy

    return copy.copy(snap)


class OneShotExit:
    """Stands in for the engine's exit Event: reports 'not set' from arm() until the engine has finished one iteration of its loop
    (the engine's own end-of-iteration hook `_loop_func` calls done()), however often the iteration asks."""

    def __init__(self) -> None:
        self.armed = False
        self.really_set = False
        self.asked = 0

    def arm(self) -> None:
        self.armed = True
        self.asked = 0

    def done(self) -> None:
        self.armed = False

    def is_set(self) -> bool:
        if self.really_set:
            return True
        if self.armed:
            self.asked += 1
            if self.asked > 100000:
                raise HarnessError("the engine's loop does not reach the end of an iteration (its _loop_func hook is never called)")
            return False
        return True

    def set(self) -> None:
        self.really_set = True

    def wait(self, t=None) -> bool:
        raise HarnessError("OneShotExit.wait must not be reached in World A")

    def __bool__(self) -> bool:
        return True


def make_simulator(cls=None):
    """Construct a GeckoSimulator (or subclass) without touching the process' logging or stdin."""
    from geckolib.utils.simulator import GeckoSimulator

    cls = cls or GeckoSimulator
    root = logging.getLogger()
    before = list(root.handlers)
    level = root.level
    sim = cls()
    root.handlers[:] = before
    root.setLevel(level)
    return sim


class SteppedEngine:
    """World A: run the simulator's real `_thread_func` one verbatim iteration per loop callback.

    Each step runs the whole loop body once (throttled send, receive, handler loops, cleanup).  A step is
    scheduled when a datagram arrives, and every 50 ms (the engine's socket timeout) while sends are
    queued.  Idle iterations (nothing queued, nothing arrived) are skipped: the simulator's handlers have
    no timeouts, so an idle iteration has no observable effect.
    """

    def __init__(self, loop, net: SimNet, gsocket, ip: str = SPA_IP, port: int = SPA_PORT, label="spa"):
        self.loop = loop
        self.net = net
        self.gsocket = gsocket
        self.sock = FakeSocket(net, ip, label)
        self.sock.settimeout(gsocket._SOCKET_TIMEOUT)
        self.sock.bind(("", port))
        self.sock.on_readable = self._on_readable
        self.exit = OneShotExit()
        gsocket._socket = self.sock
        gsocket._exit_event = self.exit
        orig_loop_func = gsocket._loop_func

        def loop_func():
            try:
                return orig_loop_func()
            finally:
                self.exit.done()
        gsocket._loop_func = loop_func
        self._timer = None
        self._timer_when = None
        self.steps = 0
        self.dead = False
        self.paused = False

    def _on_readable(self) -> None:
        self.kick(0.0)

    def kick(self, delay: float = 0.0) -> None:
        if self.dead or self.paused:
            return
        when = self.loop.clock.peek() + delay
        if self._timer is not None and not self._timer.cancelled():
            if self._timer_when is not None and self._timer_when <= when:
                return
            self._timer.cancel()
        self._timer_when = when
        self._timer = self.loop.call_at(when, self._step)

    def _step(self) -> None:
        self._timer = None
        self._timer_when = None
        if self.dead or self.paused:
            return
        self.steps += 1
        self.exit.arm()
        self.gsocket._thread_func()
        if self.sock.inbox:
            self.kick(0.0)
        elif self.gsocket._send_handlers:
            self.kick(self.gsocket._SOCKET_TIMEOUT)

    def stop(self) -> None:
        self.dead = True
        if self._timer is not None:
            self._timer.cancel()
        self.sock.close()


class SpaPeer:
    """A simulated spa on SimNet (World A).  Wraps a real GeckoSimulator."""

    def __init__(self, loop, net: SimNet, snapshot_path: Optional[str] = None, cls=None,
                 ip: str = SPA_IP, name: Optional[str] = None):
        self.sim = make_simulator(cls)
        self.ip = ip
        if name is not None:
            self.sim.do_name(name)
            # the receive-handler list holds the original hello handler; swap it so replies use the name
            hs = self.sim._socket._receive_handlers
            hs[0] = self.sim._hello_handler
        if snapshot_path is not None:
            self.sim.set_snapshot(load_snapshot(snapshot_path))
        self.engine = SteppedEngine(loop, net, self.sim._socket, ip=ip)
        if hasattr(self.sim, "attach"):
            self.sim.attach(self)

    @property
    def structure(self):
        return self.sim.structure

    @property
    def block(self) -> bytes:
        return self.sim.structure.status_block

    def set_block(self, block: bytes) -> None:
        assert len(block) == 1024
        self.sim.structure.set_status_block(block)

    def kick(self) -> None:
        self.engine.kick(0.0)

    def stop(self) -> None:
        self.engine.stop()


# ---------------------------------------------------------------------------------------------------
# ModelSpa: application semantics the bundled simulator lacks (harness model; codecs are the repo's)
# ---------------------------------------------------------------------------------------------------
_MODEL_CLS = None


def model_spa_class():
    global _MODEL_CLS
    if _MODEL_CLS is not None:
        return _MODEL_CLS
    from geckolib.const import GeckoConstants
    from geckolib.driver import (GeckoPackCommandProtocolHandler, GeckoPacketProtocolHandler,
                                 GeckoPartialStatusBlockProtocolHandler, GeckoWatercareProtocolHandler)
    from geckolib.utils.simulator import GeckoSimulator

    class SetWcHandler(GeckoPacketProtocolHandler):
        def can_handle(self, received_bytes, sender):
            return received_bytes.startswith(b"SETWC")

        def handle(self, received_bytes, sender):
            self.raw = received_bytes
            self.seq, self.mode = struct.unpack(">BB", received_bytes[5:7])

    class ModelSpa(GeckoSimulator):
        """GeckoSimulator + a model of what a spa does with commands."""

        def __init__(self, first_commands=None):
            super().__init__(first_commands)
            self.watercare_mode = 1
            self.commands: List[Dict[str, Any]] = []      # every SPACK / SETWC that reached the spa
            self.mirror_demand = True
            self.echo = True
            self.silent_verbs: set = set()
            self._peer = None
            # The spa model is a peer, not the system under test: its own copy of the block is kept with the library's structure class,
            # whose update first swaps the block and then notifies the items.  If that notification raises (a decoding defect in the tree
            # under test), the model's block has already been updated; swallow it here so that the *client's* handling of the same bytes
            # is what gets judged, not the harness.
            self.model_side_errors = 0
            self.last_sender = None
            _orig_replace = self.structure.replace_status_block_segment

            def _safe_replace(offset, segment, _orig=_orig_replace):
                try:
                    return _orig(offset, segment)
                except Exception:
                    self.model_side_errors += 1
            self.structure.replace_status_block_segment = _safe_replace
            self._setwc = SetWcHandler(on_handled=self._on_setwc)
            self._socket.add_receive_handler(self._setwc)
            for h in self._socket._receive_handlers:
                if isinstance(h, GeckoPackCommandProtocolHandler):
                    orig = h.handle

                    def handle(b, s, orig=orig, h=h):
                        h.raw = b
                        return orig(b, s)
                    h.handle = handle

        def attach(self, peer) -> None:
            self._peer = peer

        def _now(self) -> float:
            return self._peer.engine.loop.clock.peek() if self._peer is not None else 0.0

        def _should_ignore(self, handler, sender, respect_rferr=True):
            self.last_sender = sender            # reply parameters of the client that asked last (address + identifier pair)
            for v in self.silent_verbs:
                if (isinstance(v, bytes) and getattr(handler, "raw", b"").startswith(v)) or type(handler).__name__ == v:
                    return True
            return super()._should_ignore(handler, sender, respect_rferr)

        # -- reminders: peer data (the bundled simulator always reports four valid ones) --------------------------------
        reminders_override = None

        def _on_get_reminders(self, handler, sender):
            if self.reminders_override is None:
                return super()._on_get_reminders(handler, sender)
            if self._should_ignore(handler, sender):
                return
            from geckolib.driver import GeckoRemindersProtocolHandler

            self._socket.queue_send(GeckoRemindersProtocolHandler.response(list(self.reminders_override), parms=sender), sender)

        # -- watercare ---------------------------------------------------------------------------------
        def _on_watercare(self, handler, sender):
            if self._should_ignore(handler, sender):
                return
            if handler.schedule:
                self._socket.queue_send(GeckoWatercareProtocolHandler.giveschedule(parms=sender), sender)
            else:
                self._socket.queue_send(GeckoWatercareProtocolHandler.response(self.watercare_mode, parms=sender), sender)

        def _on_setwc(self, handler, sender):
            if self._should_ignore(handler, sender):
                return
            self.commands.append({"t": self._now(), "kind": "setwc", "raw": handler.raw, "seq": handler.seq,
                                  "mode": handler.mode, "sender": sender})
            self.watercare_mode = handler.mode
            self._socket.queue_send(
                GeckoPacketProtocolHandler(content=b"WCSET" + bytes([handler.mode & 0xFF]), parms=sender), sender)

        # -- pack commands -----------------------------------------------------------------------------
        def _on_pack_command(self, handler, sender):
            if self._should_ignore(handler, sender):
                return
            self._socket.queue_send(GeckoPackCommandProtocolHandler.response(parms=sender), sender)
            raw = getattr(handler, "raw", b"")
            rec = {"t": self._now(), "kind": "spack", "raw": raw, "sender": sender,
                   "before": self.structure.status_block}
            self.commands.append(rec)
            if len(self.commands) > 1 and self.commands[-2].get("raw") == raw and self.commands[-2]["kind"] == "spack":
                # a retransmission of the same command (same sequence byte): idempotent, do not re-apply
                rec["dup"] = True
                return
            # independent decode of the SPACK layout (does not use the handler's decoded fields)
            if len(raw) >= 9 and raw[8] == 57:            # key press: SPACK seq type len(2) 57 key
                key = raw[9] if len(raw) > 9 else None
                rec.update(cmd="key", key=key)
                self.apply_key(key)
            elif len(raw) >= 9 and raw[8] == 70:          # set value: SPACK seq type len 70 cfg log pos:2 data
                pos = struct.unpack(">H", raw[11:13])[0]
                data = raw[13:]
                rec.update(cmd="set", pos=pos, data=data)
                self.apply_write(pos, data)

        def apply_write(self, pos: int, data: bytes) -> None:
            if pos + len(data) > 1024 or not data:
                return
            changes = [(pos, data)]
            self.structure.replace_status_block_segment(pos, data)
            if self.mirror_demand:
                changes += self._mirror(pos, len(data))
            if self.echo:
                self.emit_statp(changes)

        def _mirror(self, pos: int, length: int):
            """Demand -> state: a pump whose user demand was written starts/stops (UdP1 -> P1 ...)."""
            out = []
            acc = self.structure.accessors
            for key, a in acc.items():
                if not key.startswith("Ud") or a.pos + a.length <= pos or a.pos >= pos + length:
                    continue
                dev = key[2:]
                state = None
                for cand in (dev, dev.upper(), dev.capitalize()):
                    if cand in acc and cand != key:
                        state = acc[cand]
                        break
                if state is None or state.type != "Enum" or a.type != "Enum":
                    continue
                val = a.value
                if val in state.items:
                    before = self.structure.status_block
                    try:
                        self._send_structure_change = False
                        state.value = val
                    except Exception:
                        continue
                    after = self.structure.status_block
                    if after != before:
                        out.append((state.pos, after[state.pos:state.pos + state.length]))
            return out

        # keypad code -> state item of the device it toggles (the model's own table)
        KEY_TO_STATE = {1: "P1", 2: "P2", 3: "P3", 4: "P4", 5: "P5", 6: "BL", 16: "UdLi", 23: "Waterfall"}

        def apply_key(self, key) -> None:
            acc = self.structure.accessors
            for code, tag in self.KEY_TO_STATE.items():
                if code == key and tag in acc:
                    a = acc[tag]
                    before = self.structure.status_block
                    try:
                        self._send_structure_change = False
                        if a.type == "Bool":
                            a.value = not a.value
                        elif a.type == "Enum":
                            cur = a.value
                            if cur == "OFF":
                                nxt = [i for i in a.items if i not in ("OFF", "")]
                                if not nxt:
                                    return
                                a.value = nxt[0]
                            else:
                                a.value = "OFF"
                    except Exception:
                        return
                    after = self.structure.status_block
                    if after != before and self.echo:
                        self.emit_statp([(a.pos, after[a.pos:a.pos + a.length])])
                    return

        # -- unsolicited traffic ---------------------------------------------------------------------------
        def emit_statp(self, changes, clients=None) -> None:
            if len(changes) > 1 and any(len(d) != 2 for _, d in changes):
                # the protocol's records are position + word; only a lone change may be the simulator's 1-byte form
                blk = self.structure.status_block
                norm = []
                for pos, d in changes:
                    if len(d) == 2:
                        norm.append((pos, d))
                    else:
                        p0 = pos if pos + 2 <= len(blk) else pos - 1
                        norm.append((p0, blk[p0:p0 + 2]))
                changes = norm
            for client in (clients if clients is not None else list(self._clients)):
                self._socket.queue_send(
                    GeckoPartialStatusBlockProtocolHandler.report_changes(self._socket, changes, parms=client), client)
            if self._peer is not None:
                self._peer.kick()

        def emit_raw(self, content: bytes, clients=None) -> None:
            for client in (clients if clients is not None else list(self._clients)):
                self._socket.queue_send(GeckoPacketProtocolHandler(content=content, parms=client), client)
            if self._peer is not None:
                self._peer.kick()

        def reboot(self, new_block: Optional[bytes] = None) -> None:
            self._clients = []
            self._socket._send_handlers[:] = []
            if new_block is not None:
                self.structure.set_status_block(new_block)

    _MODEL_CLS = ModelSpa
    return ModelSpa
