"""Peers: the repository's own GeckoSimulator run as the spa, plus harness-side application semantics.

Real code: every GeckoSimulator handler, its GeckoStructure, its GeckoUdpSocket engine (`_thread_func`
verbatim).  Harness code: how the engine thread is stepped (World A), and `ModelSpa`'s application
semantics the bundled simulator lacks (applying SPACK writes / key presses, SETWC, STATP bursts, reboot).
"""

from __future__ import annotations

import glob
import importlib
import logging
import os
import struct
from typing import Any, Dict, List, Optional, Tuple

from .core import HarnessError
from .net import SPA_IP, SPA_PORT, FakeSocket, SimNet

_SNAP_CACHE: Dict[str, Any] = {}


def repo_root() -> str:
    return os.environ.get("VERIF_REPO", "/repo")


def snapshot_files() -> List[str]:
    files = sorted(glob.glob(os.path.join(repo_root(), "tests", "snapshots", "*.snapshot")))
    if not files:
        raise HarnessError("no snapshot files found under tests/snapshots")
    return files


def load_snapshot(path: str):
    """Parse a shipped snapshot once per process (GeckoSnapshot objects are treated as immutable)."""
    snap = _SNAP_CACHE.get(path)
    if snap is None:
        import time as _real_time

        import geckolib.driver.udp_protocol_handler as _uph
        from geckolib.utils.snapshot import GeckoSnapshot

        # parsing constructs a protocol handler, which reads the clock: keep the (cached, once per
        # process) parse away from the simulated clock or the first run in a process differs by 1 ns
        saved = _uph.time
        _uph.time = _real_time
        try:
            snaps = GeckoSnapshot.parse_log_file(path)
        finally:
            _uph.time = saved
        if len(snaps) < 1:
            raise HarnessError(f"{path}: no snapshot parsed")
        snap = snaps[0]
        _SNAP_CACHE[path] = snap
    return snap


class OneShotExit:
    """Stands in for the engine's exit Event: reports 'not set' exactly once per arm()."""

    def __init__(self) -> None:
        self.armed = False
        self.really_set = False

    def arm(self) -> None:
        self.armed = True

    def is_set(self) -> bool:
        if self.really_set:
            return True
        if self.armed:
            self.armed = False
            return False
        return True

    def set(self) -> None:
        self.really_set = True

    def wait(self, t=None) -> bool:
        raise HarnessError("OneShotExit.wait must not be reached in World A")

    def __bool__(self) -> bool:
        return True


def make_simulator(cls=None):
    """Construct a GeckoSimulator (or subclass) without touching the process' logging or stdin."""
    from geckolib.utils.simulator import GeckoSimulator

    cls = cls or GeckoSimulator
    root = logging.getLogger()
    before = list(root.handlers)
    level = root.level
    sim = cls()
    root.handlers[:] = before
    root.setLevel(level)
    return sim


class SteppedEngine:
    """World A: run the simulator's real `_thread_func` one verbatim iteration per loop callback.

    Each step runs the whole loop body once (throttled send, receive, handler loops, cleanup).  A step is
    scheduled when a datagram arrives, and every 50 ms (the engine's socket timeout) while sends are
    queued.  Idle iterations (nothing queued, nothing arrived) are skipped: the simulator's handlers have
    no timeouts, so an idle iteration has no observable effect.
    """

    def __init__(self, loop, net: SimNet, gsocket, ip: str = SPA_IP, port: int = SPA_PORT, label="spa"):
        self.loop = loop
        self.net = net
        self.gsocket = gsocket
        self.sock = FakeSocket(net, ip, label)
        self.sock.settimeout(gsocket._SOCKET_TIMEOUT)
        self.sock.bind(("", port))
        self.sock.on_readable = self._on_readable
        self.exit = OneShotExit()
        gsocket._socket = self.sock
        gsocket._exit_event = self.exit
        self._timer = None
        self._timer_when = None
        self.steps = 0
        self.dead = False
        self.paused = False

    def _on_readable(self) -> None:
        self.kick(0.0)

    def kick(self, delay: float = 0.0) -> None:
        if self.dead or self.paused:
            return
        when = self.loop.clock.peek() + delay
        if self._timer is not None and not self._timer.cancelled():
            if self._timer_when is not None and self._timer_when <= when:
                return
            self._timer.cancel()
        self._timer_when = when
        self._timer = self.loop.call_at(when, self._step)

    def _step(self) -> None:
        self._timer = None
        self._timer_when = None
        if self.dead or self.paused:
            return
        self.steps += 1
        self.exit.arm()
        self.gsocket._thread_func()
        if self.sock.inbox:
            self.kick(0.0)
        elif self.gsocket._send_handlers:
            self.kick(self.gsocket._SOCKET_TIMEOUT)

    def stop(self) -> None:
        self.dead = True
        if self._timer is not None:
            self._timer.cancel()
        self.sock.close()


class SpaPeer:
    """A simulated spa on SimNet (World A).  Wraps a real GeckoSimulator."""

    def __init__(self, loop, net: SimNet, snapshot_path: Optional[str] = None, cls=None,
                 ip: str = SPA_IP, name: Optional[str] = None):
        self.sim = make_simulator(cls)
        self.ip = ip
        if name is not None:
            self.sim.do_name(name)
            # the receive-handler list holds the original hello handler; swap it so replies use the name
            hs = self.sim._socket._receive_handlers
            hs[0] = self.sim._hello_handler
        if snapshot_path is not None:
            self.sim.set_snapshot(load_snapshot(snapshot_path))
        self.engine = SteppedEngine(loop, net, self.sim._socket, ip=ip)
        if hasattr(self.sim, "attach"):
            self.sim.attach(self)

    @property
    def structure(self):
        return self.sim.structure

    @property
    def block(self) -> bytes:
        return self.sim.structure.status_block

    def set_block(self, block: bytes) -> None:
        assert len(block) == 1024
        self.sim.structure.set_status_block(block)

    def kick(self) -> None:
        self.engine.kick(0.0)

    def stop(self) -> None:
        self.engine.stop()
