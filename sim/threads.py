"""World T: the blocking stack's real thread functions on parked real threads.

Every thread created through the threading seam is a real `threading.Thread` that runs only while it holds
the baton.  The scheduler (the process' main thread) releases exactly one thread and waits until it parks
again at the next intercepted point: a blocking `recvfrom`, an `Event.wait`, a contended `Lock.acquire`, a
`join`, or -- when line pre-emption is on -- a line event in geckolib's udp_socket.py.  Who runs next, among
the enabled threads, is drawn from the run's PRNG; virtual time jumps to the next deadline or datagram
arrival when nobody is enabled.  Real threads, never a real choice of who runs: runs replay exactly.
"""

from __future__ import annotations

import sys
import threading as _real
from typing import Any, Callable, Dict, List, Optional

from .core import Choices, Clock, EventLog, HarnessError, RunResult

NEW, RUNNABLE, RUNNING, BLOCKED, DONE = "new", "runnable", "running", "blocked", "done"


class ThreadKilled(BaseException):
    """Raised inside a parked thread at teardown so that it unwinds."""


class SimThread:
    def __init__(self, sched: "Scheduler", target: Optional[Callable] = None, name: Optional[str] = None, args=(), kwargs=None, daemon=None):
        self.sched = sched
        self.target = target
        self.args = args
        self.kwargs = kwargs or {}
        self.daemon = daemon
        sched._nthreads += 1
        self.name = name or f"T{sched._nthreads}:{getattr(target, '__qualname__', getattr(target, '__name__', '?'))}"
        self.state = NEW
        self.go = _real.Semaphore(0)
        self.wake_at: Optional[int] = None
        self.cond: Optional[Callable[[], bool]] = None
        self.reason = ""
        self.exc: Optional[BaseException] = None
        self.real: Optional[_real.Thread] = None
        self.woke_by = ""
        self.steps = 0

    # threading.Thread API ---------------------------------------------------------------------------------
    def start(self) -> None:
        if self.state != NEW:
            raise RuntimeError("threads can only be started once")
        self.state = RUNNABLE
        self.sched.threads.append(self)
        self.sched.log.add("thread-start", self.name)
        self.real = _real.Thread(target=self._bootstrap, name=self.name, daemon=True)
        self.real.start()

    def _bootstrap(self) -> None:
        self.go.acquire()
        sched = self.sched
        sched._local.current = self
        try:
            if sched.killing:
                raise ThreadKilled()
            if sched.tracer is not None and (not sched.preempt_threads or any(x in self.name for x in sched.preempt_threads)):
                sys.settrace(sched.tracer)
            if self.target is not None:
                self.target(*self.args, **self.kwargs)
        except ThreadKilled:
            pass
        except BaseException as e:       # a thread that dies with an exception is recorded, not fatal
            self.exc = e
            sched.thread_errors.append((sched.clock.peek(), self.name, repr(e)))
            sched.log.add("thread-died", self.name, type(e).__name__)
        finally:
            sys.settrace(None)
            self.state = DONE
            sched.log.add("thread-end", self.name)
            sched._main_sem.release()

    def join(self, timeout: Optional[float] = None) -> None:
        me = self.sched.current()
        if me is self:
            raise RuntimeError("cannot join current thread")
        if self.state == NEW:
            raise RuntimeError("cannot join thread before it is started")
        self.sched.park("join:" + self.name, cond=lambda: self.state == DONE, timeout=timeout)

    def is_alive(self) -> bool:
        return self.state not in (NEW, DONE)

    @property
    def ident(self):
        return id(self)

    def setName(self, n):  # noqa: N802
        self.name = n

    def getName(self):  # noqa: N802
        return self.name


class SimEvent:
    def __init__(self, sched: "Scheduler"):
        self.sched = sched
        self._flag = False

    def is_set(self) -> bool:
        return self._flag

    isSet = is_set  # noqa: N815

    def set(self) -> None:
        self._flag = True

    def clear(self) -> None:
        self._flag = False

    def wait(self, timeout: Optional[float] = None) -> bool:
        if self._flag:
            # still a scheduling point: a real Event.wait on a set event returns at once but may be pre-empted
            return True
        self.sched.park("event-wait", cond=lambda: self._flag, timeout=timeout)
        return self._flag


class SimLock:
    def __init__(self, sched: "Scheduler", reentrant: bool = False):
        self.sched = sched
        self.owner: Optional[SimThread] = None
        self.count = 0
        self.reentrant = reentrant
        self.acquires = 0
        self.contended = 0

    def acquire(self, blocking: bool = True, timeout: float = -1) -> bool:
        me = self.sched.current()
        if self.owner is not None and self.owner is me and self.reentrant:
            self.count += 1
            return True
        if self.owner is not None:
            if not blocking:
                return False
            self.contended += 1
            self.sched.result.probe("lock_contended")
            self.sched.park("lock", cond=lambda: self.owner is None, timeout=None if timeout is None or timeout < 0 else timeout)
            if self.owner is not None:
                return False
        self.owner = me
        self.count = 1
        self.acquires += 1
        return True

    def release(self) -> None:
        if self.owner is None:
            raise RuntimeError("release unlocked lock")
        self.count -= 1
        if self.count <= 0:
            self.owner = None
            self.count = 0

    def locked(self) -> bool:
        return self.owner is not None

    def __enter__(self):
        self.acquire()
        return self

    def __exit__(self, *a):
        self.release()


class NullLock:
    """A lock that does not lock (used by sensitivity probes, never by checks)."""

    def acquire(self, *a, **k):
        return True

    def release(self):
        pass

    def __enter__(self):
        return self

    def __exit__(self, *a):
        pass


class ThreadingShim:
    """Stands in for the `threading` module inside geckolib."""

    def __init__(self, sched: "Scheduler"):
        self._sched = sched
        self.TIMEOUT_MAX = _real.TIMEOUT_MAX

    def Thread(self, group=None, target=None, name=None, args=(), kwargs=None, *, daemon=None):  # noqa: N802
        return SimThread(self._sched, target=target, name=name, args=args, kwargs=kwargs, daemon=daemon)

    def Event(self):  # noqa: N802
        return SimEvent(self._sched)

    def Lock(self):  # noqa: N802
        return SimLock(self._sched)

    def RLock(self):  # noqa: N802
        return SimLock(self._sched, reentrant=True)

    def current_thread(self):
        return self._sched.current()

    def get_ident(self):
        return id(self._sched.current())


class Scheduler:
    def __init__(self, clock: Clock, choices: Choices, log: EventLog, net, cfg: Dict[str, Any], result: RunResult):
        self.clock = clock
        self.log = log
        self.net = net
        self.cfg = cfg
        self.result = result
        self.threads: List[SimThread] = []
        self._nthreads = 0
        self._main_sem = _real.Semaphore(0)
        self._local = _real.local()
        self.s_pick = choices.stream("sched.pick")
        self.s_preempt = choices.stream("sched.preempt")
        self.s_cost = choices.stream("sched.cost")
        self.killing = False
        self.thread_errors: List[Any] = []
        self.steps = 0
        self.max_steps = int(cfg.get("max_steps", 2_000_000))
        self.max_time = float(cfg.get("max_time", 1e6))
        self.tracer = None
        self.preempt_p = float(cfg.get("preempt_p", 0.0))
        self.preempt_files = tuple(cfg.get("preempt_files", ("udp_socket.py",)))
        self.preempt_threads = tuple(cfg.get("preempt_threads", ()))       # only threads whose name contains one of these are pre-empted at lines
        self.cost_p = float(cfg.get("cost_p", 0.0))
        self.preempt_stall_p = float(cfg.get("preempt_stall_p", 0.0))
        self.preempt_stall_max = float(cfg.get("preempt_stall_max", 1.0))
        self.s_wall = choices.stream("clock.wall")
        self.wall_jump_p = float(cfg.get("wall_jump_p", 0.0))
        self.wall_jump_max = float(cfg.get("wall_jump_max", 86400.0))
        self.cost_max = float(cfg.get("cost_max", 0.002))
        self.monitors: List[Callable[[], None]] = []
        self.preemptions = 0
        net.who = self._who
        if self.preempt_p > 0:
            self.tracer = self._global_trace

    # -- identity --------------------------------------------------------------------------------------------
    def current(self) -> Optional[SimThread]:
        return getattr(self._local, "current", None)

    def _who(self) -> str:
        t = self.current()
        return t.name if t is not None else "sched"

    # -- line-level pre-emption ------------------------------------------------------------------------------------
    def _global_trace(self, frame, event, arg):
        if event == "call" and frame.f_code.co_filename.endswith(self.preempt_files):
            return self._local_trace
        return None

    def _local_trace(self, frame, event, arg):
        if event == "line" and not self.killing:
            if self.s_preempt.chance(self.preempt_p):
                self.preemptions += 1
                if self.preempt_stall_p and self.s_preempt.chance(self.preempt_stall_p):
                    # the pre-empted thread stays off the processor for a while (it is simply not runnable): the other threads run, their
                    # timers come due, datagrams travel
                    self.result.fault("thread_descheduled")
                    self.park("descheduled", None, self.s_preempt.uniform(0.0, self.preempt_stall_max))
                else:
                    self.yield_("preempt")
        return self._local_trace

    # -- parking -----------------------------------------------------------------------------------------------------
    def park(self, reason: str, cond: Optional[Callable[[], bool]] = None, timeout: Optional[float] = None) -> bool:
        """Called by the running thread: block until cond() or the timeout.  Returns True if cond held."""
        me = self.current()
        if me is None:
            raise HarnessError(f"park({reason}) called from a thread the scheduler does not own")
        if self.killing:
            raise ThreadKilled()
        me.cond = cond
        me.wake_at = None if timeout is None else self.clock.ns + int(max(0.0, timeout) * 1e9)
        me.reason = reason
        me.state = BLOCKED
        self._main_sem.release()
        me.go.acquire()
        if self.killing:
            raise ThreadKilled()
        me.state = RUNNING
        return bool(cond()) if cond is not None else False

    def yield_(self, reason: str = "yield") -> None:
        me = self.current()
        if me is None or self.killing:
            return
        me.cond = None
        me.wake_at = None
        me.reason = reason
        me.state = RUNNABLE
        self._main_sem.release()
        me.go.acquire()
        if self.killing:
            raise ThreadKilled()
        me.state = RUNNING

    # FakeSocket blocker API
    def wait_readable(self, sock, timeout: Optional[float]) -> bool:
        return self.park("recv:" + sock.label, cond=lambda: bool(sock.inbox) or sock.closed, timeout=timeout)

    # -- the scheduler loop (runs in the process' main thread) -------------------------------------------------------------
    def _enabled(self) -> List[SimThread]:
        now = self.clock.ns
        out = []
        for t in self.threads:
            if t.state == RUNNABLE:
                out.append(t)
            elif t.state == BLOCKED:
                if (t.cond is not None and t.cond()) or (t.wake_at is not None and t.wake_at <= now):
                    out.append(t)
        return out

    def run(self, until: Callable[[], bool]) -> None:
        clock = self.clock
        net = self.net
        while not until():
            if net._heap and net._heap[0][0] <= clock.ns:
                net.deliver_due(clock.ns)
            en = self._enabled()
            if not en:
                nxt = net.next_time_ns()
                for t in self.threads:
                    if t.state == BLOCKED and t.wake_at is not None and (nxt is None or t.wake_at < nxt):
                        nxt = t.wake_at
                if nxt is None:
                    live = [(t.name, t.reason) for t in self.threads if t.state == BLOCKED]
                    raise HarnessError(f"World T deadlock: nothing enabled, nothing scheduled; blocked: {live}")
                clock.advance_to(nxt)
                if clock.ns / 1e9 > self.max_time:
                    raise HarnessError(f"virtual time cap {self.max_time}s exceeded")
                continue
            t = en[self.s_pick.index(len(en))] if len(en) > 1 else en[0]
            self.steps += 1
            t.steps += 1
            if self.steps > self.max_steps:
                raise HarnessError(f"scheduler step cap {self.max_steps} exceeded")
            t.state = RUNNING
            t.go.release()
            self._main_sem.acquire()
            if self.cost_p and self.s_cost.chance(self.cost_p):
                clock.inject(int(self.s_cost.uniform(0.0, self.cost_max) * 1e9))
            if self.wall_jump_p and self.s_wall.chance(self.wall_jump_p):
                clock.wall_offset_ns += int(self.s_wall.uniform(-self.wall_jump_max, self.wall_jump_max) * 1e9)
                self.result.fault("wall_clock_jump")
            for m in self.monitors:
                m()

    def spawn(self, fn: Callable, name: str) -> SimThread:
        t = SimThread(self, target=fn, name=name)
        t.start()
        return t

    def shutdown(self) -> None:
        """Unwind every thread that is still parked (daemon threads of the stack under test included)."""
        self.killing = True
        for _ in range(10000):
            alive = [t for t in self.threads if t.state not in (DONE, NEW)]
            if not alive:
                break
            t = alive[0]
            t.go.release()
            self._main_sem.acquire()
        for t in self.threads:
            if t.real is not None:
                t.real.join(timeout=5)
                if t.real.is_alive():
                    raise HarnessError(f"thread {t.name} did not unwind")
