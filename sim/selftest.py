"""Self-tests that gate trust in the machinery: determinism (and, via ./sensitivity, sensitivity)."""

from __future__ import annotations

import json
import multiprocessing
import os
import subprocess
import sys
import time
from concurrent.futures import ProcessPoolExecutor
from typing import Dict, List

from .driver import DEFAULT_SEED, VERIF, prop_module, run_seed

ALL_PROPS = ["C01", "C03", "C05", "C06", "C07", "C08", "C09", "C10", "C13", "C15", "C16", "C17", "C20"]


def _digest_of(prop: str, tier: str, index: int) -> str:
    mod = prop_module(prop)
    gen = getattr(mod, "selftest_case", None)
    base = DEFAULT_SEED["quick"]
    if gen is not None:
        case = gen(base, tier, index)
    else:
        case = mod.gen_case(run_seed(prop, base, index), tier, index)
    r = mod.run_case(case, keep_log=False)
    return r.digest + ("!" + r.violations[0].cls if r.violations else "")


def _chunk(args):
    prop, tier, idxs = args
    return {i: _digest_of(prop, tier, i) for i in idxs}


def print_digests(prop: str, tier: str, idxs: List[int]) -> int:
    print("DIGESTS " + json.dumps(_chunk((prop, tier, idxs))))
    return 0


def determinism(props: List[str], n: int) -> int:
    bad = 0
    ctx = multiprocessing.get_context("fork")
    for prop in props:
        t0 = time.time()
        try:
            prop_module(prop)
        except ModuleNotFoundError:
            print(f"[selftest] {prop}: no module yet, skipped")
            continue
        idxs = list(range(n))
        # A: 16 workers, chunks in natural order
        with ProcessPoolExecutor(max_workers=16, mp_context=ctx) as pool:
            chunks = [(prop, "quick", idxs[k::16]) for k in range(16) if idxs[k::16]]
            a: Dict[int, str] = {}
            for d in pool.map(_chunk, chunks):
                a.update(d)
        # B: one worker, reversed order (different in-process history before each run)
        with ProcessPoolExecutor(max_workers=2, mp_context=ctx) as pool:
            b: Dict[int, str] = {}
            half = len(idxs) // 2
            for d in pool.map(_chunk, [(prop, "quick", list(reversed(idxs[:half]))), (prop, "quick", list(reversed(idxs[half:])))]):
                b.update(d)
        # C: fresh interpreters under another PYTHONHASHSEED, 4 runs each
        c: Dict[int, str] = {}
        procs = []
        for k in range(0, n, 4):
            env = dict(os.environ)
            env["VERIF_HASHSEED"] = "12345"
            env.pop("VERIF_NO_REEXEC", None)
            env["PYTHONHASHSEED"] = "12345"
            env["VERIF_NO_REEXEC"] = "1"
            procs.append(subprocess.Popen([sys.executable, os.path.join(VERIF, "sim", "main.py"), "digests", prop, "quick",
                                           ",".join(str(i) for i in idxs[k:k + 4])], stdout=subprocess.PIPE, stderr=subprocess.PIPE,
                                          text=True, env=env))
            if len(procs) >= 16:
                for p in procs:
                    out, err = p.communicate(timeout=900)
                    for line in out.splitlines():
                        if line.startswith("DIGESTS "):
                            c.update({int(k2): v for k2, v in json.loads(line[8:]).items()})
                procs = []
        for p in procs:
            out, err = p.communicate(timeout=900)
            for line in out.splitlines():
                if line.startswith("DIGESTS "):
                    c.update({int(k2): v for k2, v in json.loads(line[8:]).items()})
        diffs = [i for i in idxs if not (a.get(i) == b.get(i) == c.get(i))]
        status = "OK" if not diffs and len(c) == n else "DIVERGED"
        print(f"[selftest] determinism {prop}: {n} seeds x 3 settings (16 workers / 2 workers reversed / fresh interpreters "
              f"with PYTHONHASHSEED=12345): {status} ({time.time() - t0:.1f}s)")
        if diffs or len(c) != n:
            bad += 1
            for i in diffs[:5]:
                print(f"    index {i}: A={a.get(i, '-')[:12]} B={b.get(i, '-')[:12]} C={c.get(i, '-')[:12]}")
    return 1 if bad else 0


def main(args: List[str]) -> int:
    if not args:
        print("usage: selftest determinism [N] [props...]")
        return 2
    if args[0] == "determinism":
        n = 48
        rest = args[1:]
        if rest and rest[0].isdigit():
            n = int(rest[0])
            rest = rest[1:]
        return determinism([p.upper() for p in rest] or ALL_PROPS, n)
    print("unknown selftest", args[0])
    return 2
