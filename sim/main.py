"""Entry point: re-execs with PYTHONHASHSEED=0 under /venv/bin/python, puts $VERIF_REPO/src first on sys.path."""

import os
import sys

VERIF = os.path.dirname(os.path.dirname(os.path.abspath(__file__)))
PY = "/venv/bin/python"


def _bootstrap() -> None:
    want = os.environ.get("VERIF_HASHSEED", "0")
    if os.environ.get("PYTHONHASHSEED") != want or (os.path.exists(PY) and os.path.realpath(sys.executable) != os.path.realpath(PY)
                                                  and not os.environ.get("VERIF_NO_REEXEC")):
        env = dict(os.environ)
        env["PYTHONHASHSEED"] = want
        env["VERIF_NO_REEXEC"] = "1"
        exe = PY if os.path.exists(PY) else sys.executable
        os.execve(exe, [exe] + sys.argv, env)
    repo = os.environ.get("VERIF_REPO", "/repo")
    src = os.path.join(repo, "src")
    # drop the script directory (sim/) so that `import sim.x` never loads a module twice
    here = os.path.dirname(os.path.abspath(__file__))
    sys.path[:] = [p for p in sys.path if os.path.abspath(p or ".") != here]
    for p in (VERIF, src):
        if p in sys.path:
            sys.path.remove(p)
    sys.path.insert(0, VERIF)
    sys.path.insert(0, src)
    sys.dont_write_bytecode = True


def main() -> int:
    _bootstrap()
    import geckolib  # noqa: F401  (fail early, as a harness error, if the tree does not import)

    repo = os.environ.get("VERIF_REPO", "/repo")
    if not os.path.abspath(geckolib.__file__).startswith(os.path.abspath(repo) + os.sep):
        print(f"HARNESS-ERROR geckolib imported from {geckolib.__file__}, expected under {repo}")
        return 2
    from sim import driver

    args = sys.argv[1:]
    if not args:
        print("usage: main.py check <ID> <quick|thorough> | replay <file> | selftest <name>")
        return 2
    if args[0] == "check":
        return driver.run_check(args[1].upper(), args[2])
    if args[0] == "replay":
        return driver.replay_file(args[1])
    if args[0] == "runcase":
        return driver.runcase_file(args[1])
    if args[0] == "digests":
        from sim import selftest

        return selftest.print_digests(args[1].upper(), args[2], [int(x) for x in args[3].split(",")])
    if args[0] == "selftest":
        from sim import selftest

        return selftest.main(args[1:])
    print("unknown command", args[0])
    return 2


if __name__ == "__main__":
    try:
        rc = main()
    except SystemExit:
        raise
    except BaseException as e:  # the machinery failed: never exit 0, never a verdict
        import traceback

        traceback.print_exc()
        print(f"HARNESS-ERROR {type(e).__name__}: {e}")
        rc = 2
    sys.exit(rc)
