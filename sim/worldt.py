"""World T: the blocking/threaded stack under the baton scheduler."""

from __future__ import annotations

import contextlib
import copy
from typing import Any, Callable, Dict, List, Optional

from .core import Choices, Clock, EventLog, HarnessError, RunResult, Violation
from .net import CLIENT_IP, SPA_IP, FakeSocket, SimNet
from .seams import Seams
from .threads import Scheduler, ThreadingShim


class WorldT:
    def __init__(self, case: Dict[str, Any], replay: Optional[Dict[str, Any]] = None, keep_log: bool = True):
        self.case = case = copy.deepcopy(case)
        self.cfg: Dict[str, Any] = case.get("cfg", {})
        self.seed: int = int(case["seed"])
        self.result = RunResult()
        self.clock = Clock()
        self.choices = Choices(self.seed, replay)
        self.log = EventLog(self.clock, keep=keep_log)
        self.net = SimNet(self.clock, self.choices, self.log, self.cfg.get("net", {}), self.result)
        self.sched = Scheduler(self.clock, self.choices, self.log, self.net, self.cfg.get("sched", {}), self.result)
        self.shim = ThreadingShim(self.sched)
        self.seams = Seams()
        self._host = CLIENT_IP
        self.sockets: List[FakeSocket] = []
        self._main_exc: Optional[BaseException] = None
        self._main_done = False

    # -- seams ----------------------------------------------------------------------------------------------
    def _socket_factory(self) -> FakeSocket:
        s = FakeSocket(self.net, self._host, f"sock{len(self.sockets)}@{self._host}", blocker=self.sched)
        self.sockets.append(s)
        self.log.add("socket-open", s.label)
        return s

    @contextlib.contextmanager
    def host(self, ip: str):
        old = self._host
        self._host = ip
        try:
            yield
        finally:
            self._host = old

    def install(self) -> None:
        self.seams.quiet_logging()
        self.seams.reset_globals(self.cfg.get("tables"))
        self.seams.install_consts(self.cfg.get("consts"))
        self.seams.install_time(self.clock)
        self.seams.install_random(self.choices.stream("spa.random"))
        self.seams.install_socket(self._socket_factory)
        self.seams.install_threading(self.shim)

    def violate(self, prop: str, cls: str, msg: str, sig: Optional[str] = None, detail: Any = None) -> None:
        v = Violation(prop, cls, msg, sig, detail)
        self.log.add("VIOLATION", prop, cls, msg)
        raise v

    def note(self, prop: str, cls: str, msg: str, sig: Optional[str] = None, detail: Any = None) -> None:
        v = Violation(prop, cls, msg, sig, detail)
        if not any(x.sig == v.sig for x in self.result.violations):
            self.log.add("VIOLATION", prop, cls, msg)
            self.result.violations.append(v)

    def now(self) -> float:
        return self.clock.peek()

    def sleep(self, d: float) -> None:
        """Harness threads sleep in virtual time."""
        self.sched.park("harness-sleep", cond=None, timeout=d)

    def wait_until(self, pred: Callable[[], bool], cap: float, step: float = 0.05) -> bool:
        t0 = self.now()
        while not pred():
            if self.now() - t0 > cap:
                return False
            self.sleep(step)
        return True

    # -- running -----------------------------------------------------------------------------------------------
    def run(self, main: Callable[["WorldT"], None]) -> RunResult:
        res = self.result
        try:
            self.install()

            def _main():
                try:
                    main(self)
                except Violation as v:
                    res.violations.append(v)
                except BaseException as e:
                    from .threads import ThreadKilled

                    if not isinstance(e, ThreadKilled):
                        self._main_exc = e
                    else:
                        raise
                finally:
                    self._main_done = True

            self.sched.spawn(_main, "HARNESS:main")
            try:
                self.sched.run(lambda: self._main_done)
            finally:
                self.sched.shutdown()
        finally:
            self.seams.restore()
        if self._main_exc is not None:
            if isinstance(self._main_exc, HarnessError):
                raise self._main_exc
            raise HarnessError(f"harness main thread raised {type(self._main_exc).__name__}: {self._main_exc}") from self._main_exc
        res.digest = self.log.digest()
        res.sim_seconds = self.clock.peek()
        res.callbacks = self.sched.steps
        res.choices = self.choices.recorded()
        if self.log._keep:
            res.log = self.log.entries
        res.stats["preemptions"] = self.sched.preemptions
        return res
