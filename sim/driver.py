"""Batch driver: seeded search over many simulated runs, evidence, replay files, known findings.

Interface (registered in MANIFEST.json):  ./check <ID> quick|thorough   and   ./replay <file>
exit 0 = held on everything explored (KNOWN-FINDING lines allowed); exit 1 + 'VIOLATION property=<id>
replay=<path>' = a violation not listed in known_findings.json; exit 2 + 'HARNESS-ERROR' = the machinery
itself failed (never a verdict).
"""

from __future__ import annotations

import faulthandler
import importlib
import json
import multiprocessing
import os
import subprocess
import sys
import time
import traceback
from concurrent.futures import FIRST_COMPLETED, ProcessPoolExecutor, wait
from concurrent.futures.process import BrokenProcessPool
from typing import Any, Dict, List, Optional, Tuple

from .core import HarnessError, RunResult, canonical_json, mix, unjson_bytes

VERIF = os.path.dirname(os.path.dirname(os.path.abspath(__file__)))
DEFAULT_SEED = {"quick": 20261001, "thorough": 77001001}


def prop_module(prop: str):
    return importlib.import_module(f"props.{prop.lower()}")


def run_seed(prop: str, base_seed: int, index: int) -> int:
    return mix(base_seed, prop, index) & ((1 << 53) - 1)


# ---------------------------------------------------------------------------------------------------
# worker side
# ---------------------------------------------------------------------------------------------------
class Agg:
    """Per-job aggregate (kept small: it crosses a process boundary)."""

    def __init__(self) -> None:
        self.runs = 0
        self.faults: Dict[str, int] = {}
        self.probes: Dict[str, int] = {}
        self.stats: Dict[str, float] = {}
        self.sim_seconds = 0.0
        self.callbacks = 0
        self.nontrivial_digests: List[str] = []
        self.shapes: List[str] = []
        self.samples: List[Any] = []
        self.violations: List[Dict[str, Any]] = []
        self.faultfree_runs = 0
        self.faulty_runs = 0
        self.errors: List[str] = []
        self.subspaces: Dict[str, int] = {}
        self.sets: Dict[str, set] = {}

    def add(self, case: Dict[str, Any], r: RunResult) -> None:
        self.runs += 1
        for k, v in r.faults.items():
            self.faults[k] = self.faults.get(k, 0) + v
        for k, v in r.probes.items():
            self.probes[k] = self.probes.get(k, 0) + v
        for k, v in r.stats.items():
            if not k.startswith("draws."):
                self.stats[k] = self.stats.get(k, 0) + v
        self.sim_seconds += r.sim_seconds
        self.callbacks += r.callbacks
        if r.nontrivial:
            self.nontrivial_digests.append(r.digest[:16])
        if r.shape:
            self.shapes.append(r.shape[:16])
        if r.faultfree:
            self.faultfree_runs += 1
        else:
            self.faulty_runs += 1
        if r.sample is not None and len(self.samples) < 2:
            self.samples.append(r.sample)
        for k, v in getattr(r, "sets", {}).items():
            self.sets.setdefault(k, set()).update(v)
        sub = case.get("subspace")
        if sub:
            self.subspaces[sub] = self.subspaces.get(sub, 0) + 1
        for v in r.violations:
            if len(self.violations) < 4:
                self.violations.append({"case": case, "choices": r.choices, "violation": v.to_json(),
                                        "digest": r.digest})

    def pack(self) -> Dict[str, Any]:
        d = dict(self.__dict__)
        d["sets"] = {k: sorted(v) for k, v in self.sets.items()}
        return d


def run_case_fresh(prop: str, case: Dict[str, Any], timeout: float = 300.0) -> Dict[str, Any]:
    """Run one case in a fresh interpreter (no history of earlier runs in the process).  Returns {"error": str|None, "violations": [...],
    "choices":..., "digest":..., "stats":..., "sample":..., "callbacks":...}."""
    import tempfile

    d = os.path.join(VERIF, "scratch", "fresh")
    os.makedirs(d, exist_ok=True)
    fd, path = tempfile.mkstemp(prefix=f"{prop}-", suffix=".json", dir=d)
    try:
        with os.fdopen(fd, "w") as f:
            f.write(canonical_json({"property": prop, "case": case}))
        env = dict(os.environ)
        env["PYTHONHASHSEED"] = "0"
        p = subprocess.run([sys.executable, os.path.join(VERIF, "sim", "main.py"), "runcase", path], capture_output=True, text=True, env=env, timeout=timeout)
        line = next((l for l in p.stdout.splitlines() if l.startswith("RUNCASE-RESULT ")), None)
        if line is None:
            return {"error": f"fresh run produced no result (rc={p.returncode}): {(p.stdout + p.stderr)[-400:]}", "violations": []}
        return json.loads(line[len("RUNCASE-RESULT "):])
    finally:
        try:
            os.unlink(path)
        except OSError:
            pass


def runcase_file(path: str) -> int:
    with open(path) as f:
        doc = json.load(f)
    mod = prop_module(doc["property"])
    case = unjson_bytes(doc["case"])
    out: Dict[str, Any] = {"error": None, "violations": []}
    try:
        r = mod.run_case(case)
        out.update(violations=[v.to_json() for v in r.violations], choices=r.choices, digest=r.digest, stats=r.stats, sample=r.sample, callbacks=r.callbacks)
    except HarnessError as e:
        out["error"] = f"HarnessError: {e}"
    print("RUNCASE-RESULT " + canonical_json(out))
    return 0


def _worker_job(prop: str, tier: str, base_seed: int, job: Dict[str, Any], wall_cap: float) -> Dict[str, Any]:
    faulthandler.dump_traceback_later(wall_cap, exit=True)
    try:
        mod = prop_module(prop)
        agg = Agg()
        cases = iter(mod.job_cases(job, tier, base_seed))
        while True:
            try:
                case = next(cases)
            except StopIteration:
                break
            except HarnessError as e:       # (case generation may run a baseline)
                agg.errors.append(f"HarnessError while generating the cases of job {job}: {e}")
                break
            try:
                r = mod.run_case(case)
            except HarnessError as e:
                # The harness could not even set the scene (e.g. no connection on a healthy network).  If the same case behaves in a fresh
                # interpreter, this worker's history is to blame: the code under test keeps process-global state that survived earlier
                # runs.  The fresh run is the one that counts (a replay file is defined by what a fresh interpreter does).
                fr = run_case_fresh(prop, case)
                if fr.get("error"):
                    agg.errors.append(f"HarnessError in case seed={case.get('seed')}: {e} (fresh interpreter: {fr['error']})")
                    break
                agg.runs += 1
                agg.probes["rerun_in_a_fresh_interpreter_after_setup_failure"] = agg.probes.get("rerun_in_a_fresh_interpreter_after_setup_failure", 0) + 1
                for vj in fr["violations"][:1]:
                    if len(agg.violations) < 4:
                        agg.violations.append({"case": case, "choices": fr.get("choices") or {}, "violation": vj, "digest": fr.get("digest") or ""})
                if agg.probes["rerun_in_a_fresh_interpreter_after_setup_failure"] >= 8:
                    agg.errors.append(f"this worker's set-up keeps failing while fresh interpreters run the same cases (process-global state in the code under test?): {e}")
                    break
                continue
            except Exception as e:  # harness code failed; never a verdict
                agg.errors.append(f"{type(e).__name__} in case seed={case.get('seed')}: {e}\n" + traceback.format_exc()[-1500:])
                break
            agg.add(case, r)
        return agg.pack()
    finally:
        faulthandler.cancel_dump_traceback_later()


# ---------------------------------------------------------------------------------------------------
# known findings
# ---------------------------------------------------------------------------------------------------
def load_known(prop: str) -> Tuple[List[Dict[str, Any]], List[Dict[str, Any]]]:
    path = os.path.join(VERIF, "known_findings.json")
    if not os.path.exists(path):
        return [], []
    with open(path) as f:
        data = json.load(f)
    mine = [e for e in data.get("findings", []) if e.get("property") == prop]
    return [e for e in mine if e.get("status") == "open"], [e for e in mine if e.get("status") == "fixed"]


def match_known(sig: str, open_findings: List[Dict[str, Any]]) -> Optional[Dict[str, Any]]:
    for e in open_findings:
        if e.get("signature") == sig:
            return e
    return None


# ---------------------------------------------------------------------------------------------------
# replay + minimisation
# ---------------------------------------------------------------------------------------------------
def _fails(mod, case, choices, vsig) -> Tuple[bool, Optional[RunResult]]:
    """Same violation = same signature (which implies the same class)."""
    try:
        r = mod.run_case(case, replay=choices)
    except Exception:
        return False, None
    return any(v.sig == vsig for v in r.violations), r


def _ddmin_list(items: List[Any], test, deadline: float) -> List[Any]:
    n = 2
    items = list(items)
    while len(items) >= 1 and time.time() < deadline:
        chunk = max(1, len(items) // n)
        reduced = False
        i = 0
        while i < len(items) and time.time() < deadline:
            cand = items[:i] + items[i + chunk:]
            if test(cand):
                items = cand
                n = max(n - 1, 2)
                reduced = True
            else:
                i += chunk
        if not reduced:
            if chunk == 1:
                break
            n = min(len(items), n * 2)
    return items


def minimise(mod, case: Dict[str, Any], choices: Dict[str, Any], vclass: str, budget: float):
    deadline = time.time() + budget
    case = json.loads(canonical_json(case))
    choices = json.loads(canonical_json(choices))
    ok, r = _fails(mod, unjson_bytes(case), choices, vclass)
    if not ok:
        return None
    best_case, best_choices = case, r.choices

    # (1) drop plan operations
    if isinstance(case.get("plan"), list) and len(case["plan"]) > 1:
        def test_plan(plan):
            c = dict(best_case)
            c["plan"] = plan
            ok, _ = _fails(mod, unjson_bytes(c), best_choices, vclass)
            return ok
        keep_last = getattr(mod, "MINIMISE_KEEP", None)
        plan = _ddmin_list(best_case["plan"], test_plan, deadline)
        c = dict(best_case)
        c["plan"] = plan
        ok, r = _fails(mod, unjson_bytes(c), best_choices, vclass)
        if ok:
            best_case, best_choices = c, r.choices

    # (2) remove recorded non-benign choices, stream by stream
    for name in sorted(best_choices.keys()):
        if time.time() >= deadline:
            break
        entries = best_choices.get(name, [])
        if not entries:
            continue

        def test_entries(ents, name=name):
            ch = dict(best_choices)
            ch[name] = ents
            ok, _ = _fails(mod, unjson_bytes(best_case), ch, vclass)
            return ok
        if test_entries([]):
            kept: List[Any] = []
        else:
            kept = _ddmin_list(entries, test_entries, deadline)
        ch = dict(best_choices)
        ch[name] = kept
        ok, r = _fails(mod, unjson_bytes(best_case), ch, vclass)
        if ok:
            best_choices = r.choices

    # (3) property-specific numeric shrinking
    shrink = getattr(mod, "shrink_case", None)
    if shrink is not None:
        progress = True
        while progress and time.time() < deadline:
            progress = False
            for cand in shrink(best_case):
                if time.time() >= deadline:
                    break
                ok, r = _fails(mod, unjson_bytes(cand), best_choices, vclass)
                if ok:
                    best_case, best_choices = json.loads(canonical_json(cand)), r.choices
                    progress = True
                    break
    ok, r = _fails(mod, unjson_bytes(best_case), best_choices, vclass)
    if not ok:
        return None
    return best_case, r.choices, r


def write_replay(prop: str, case, choices, r_or_payload, vjson, digest, suffix="") -> str:
    os.makedirs(os.path.join(VERIF, "replays"), exist_ok=True)
    name = f"{prop}-{case.get('seed')}-{digest[:8]}{suffix}.json"
    path = os.path.join(VERIF, "replays", name)
    doc = {"property": prop, "world": case.get("world"), "seed": case.get("seed"), "case": case,
           "choices": choices, "violation": vjson, "digest": digest}
    with open(path, "w") as f:
        f.write(json.dumps(json.loads(canonical_json(doc)), indent=1, sort_keys=True))
    return path


def replay_file(path: str, quiet: bool = False) -> int:
    with open(path) as f:
        doc = json.load(f)
    prop = doc["property"]
    mod = prop_module(prop)
    case = unjson_bytes(doc["case"])
    try:
        r = mod.run_case(case, replay=doc.get("choices") or {}, keep_log=True)
    except Exception as e:
        print(f"HARNESS-ERROR replay of {path} raised {type(e).__name__}: {e}")
        traceback.print_exc()
        return 2
    want = doc.get("violation", {}).get("class")
    got = [v for v in r.violations if v.cls == want] if want else r.violations
    same_digest = (r.digest == doc.get("digest"))
    if not quiet:
        print(f"replay {os.path.basename(path)}: property={prop} seed={doc.get('seed')} digest={r.digest[:16]} "
              f"(recorded {str(doc.get('digest'))[:16]}, match={same_digest})")
        for v in r.violations:
            print(f"  violation class={v.cls} signature={v.sig}: {v.msg}")
        if os.environ.get("VERIF_SHOW_LOG") and r.log:
            for e in r.log[-int(os.environ.get('VERIF_SHOW_LOG')):]:
                print("   ", e)
    if got:
        print(f"FRESH-DIGEST {r.digest}")
        print(f"REPRODUCED property={prop} class={got[0].cls} digest_match={same_digest}")
        print(f"VIOLATION property={prop} replay={path}")
        return 1
    print(f"NOT-REPRODUCED property={prop} (expected class {want})")
    return 0


def verify_replay_fresh(path: str, _second: bool = False) -> Tuple[bool, str]:
    """Replay in a fresh interpreter: must reproduce the same class and digest."""
    env = dict(os.environ)
    env["PYTHONHASHSEED"] = "0"
    p = subprocess.run([sys.executable, os.path.join(VERIF, "sim", "main.py"), "replay", path],
                       capture_output=True, text=True, env=env, timeout=600)
    out = p.stdout + p.stderr
    ok = p.returncode == 1 and "REPRODUCED" in out and "digest_match=True" in out
    if not ok and p.returncode == 1 and "REPRODUCED" in out and "digest_match=False" in out and not _second:
        # The violation reproduces from the file in a fresh interpreter, but the event log differs from the run that found it:
        # that run had a process history (earlier runs in the same worker), which matters only when the code under test keeps
        # process-global state.  The replay file is defined by what a fresh interpreter does: adopt that digest and require a
        # second fresh interpreter to agree with it exactly.
        fresh = [l.split()[1] for l in out.splitlines() if l.startswith("FRESH-DIGEST ")]
        if fresh:
            with open(path) as f:
                doc = json.load(f)
            doc["digest"] = fresh[0]
            doc["note"] = "digest taken from a fresh-interpreter replay; the finding run's own log differed (process-global state in the code under test?)"
            with open(path, "w") as f:
                f.write(json.dumps(doc, indent=1, sort_keys=True))
            return verify_replay_fresh(path, _second=True)
    return ok, out[-2000:]


# ---------------------------------------------------------------------------------------------------
# the check
# ---------------------------------------------------------------------------------------------------
def run_check(prop: str, tier: str) -> int:
    t_start = time.time()
    mod = prop_module(prop)
    base_seed = int(os.environ.get("VERIF_SEED", DEFAULT_SEED[tier]))
    workers = int(os.environ.get("VERIF_WORKERS", min(16, os.cpu_count() or 1)))
    budget = float(os.environ.get("VERIF_BUDGET_S", mod.BUDGET.get(tier, 45 if tier == "quick" else 600)))
    job_wall_cap = float(os.environ.get("VERIF_JOB_CAP_S", 900))
    print(f"[check] property={prop} tier={tier} VERIF_SEED={base_seed} workers={workers} budget={budget}s "
          f"repo={os.environ.get('VERIF_REPO', '/repo')}", flush=True)

    jobs = mod.jobs(tier, base_seed)          # iterator of job dicts (may be unbounded for thorough)
    total = Agg()
    nontrivial = set()
    shapes = set()
    payloads: List[Dict[str, Any]] = []
    errors: List[str] = []
    deadline = t_start + budget
    growth: Dict[str, Any] = {}
    sig_counts: Dict[str, int] = {}
    open_findings, fixed_findings = load_known(prop)
    ctx = multiprocessing.get_context("fork")
    njobs = 0
    try:
        with ProcessPoolExecutor(max_workers=workers, mp_context=ctx) as pool:
            pending = set()
            exhausted = False

            def submit_more():
                nonlocal exhausted, njobs
                while not exhausted and len(pending) < workers * 2:
                    mandatory = False
                    try:
                        job = next(jobs)
                    except StopIteration:
                        exhausted = True
                        break
                    mandatory = bool(job.get("mandatory"))
                    if time.time() > deadline and not mandatory:
                        exhausted = True
                        break
                    pending.add(pool.submit(_worker_job, prop, tier, base_seed, job, job_wall_cap))
                    njobs += 1

            submit_more()
            while pending:
                done, _ = wait(pending, timeout=job_wall_cap + 30, return_when=FIRST_COMPLETED)
                if not done:
                    errors.append("worker timeout")
                    break
                for fut in done:
                    pending.discard(fut)
                    a = fut.result()
                    total.runs += a["runs"]
                    for k in ("faults", "probes", "stats", "subspaces"):
                        for kk, vv in a[k].items():
                            getattr(total, k)[kk] = getattr(total, k).get(kk, 0) + vv
                    total.sim_seconds += a["sim_seconds"]
                    total.callbacks += a["callbacks"]
                    total.faultfree_runs += a["faultfree_runs"]
                    total.faulty_runs += a["faulty_runs"]
                    nontrivial.update(a["nontrivial_digests"])
                    shapes.update(a["shapes"])
                    if len(total.samples) < 4:
                        total.samples.extend(a["samples"][: 4 - len(total.samples)])
                    for pl in a["violations"]:
                        sg = pl["violation"]["signature"]
                        sig_counts[sg] = sig_counts.get(sg, 0) + 1
                        if sig_counts[sg] <= 8:
                            payloads.append(pl)
                    errors.extend(a["errors"])
                    for k, v in a.get("sets", {}).items():
                        cur = total.sets.setdefault(k, set())
                        before = len(cur)
                        cur.update(v)
                        if len(cur) != before:
                            growth[k] = (total.runs, len(cur))
                if len(errors) >= 20 or (errors and time.time() > deadline):
                    # (a few broken runs do not end the search: a change that poisons process-global state breaks the set-up of some runs
                    #  and shows as a verdict in others)
                    for f in pending:
                        f.cancel()
                    break
                unknown = [sg for sg in sig_counts if match_known(sg, open_findings) is None]
                if len(unknown) >= 4 or sum(sig_counts[sg] for sg in unknown) >= 40:
                    exhausted = True
                submit_more()
    except BrokenProcessPool as e:
        errors.append(f"worker died: {e}")

    wall_search = time.time() - t_start
    harness_failed = False
    if errors:
        for e in errors[:5]:
            print(f"HARNESS-ERROR property={prop} {e}", flush=True)
        if not payloads:
            return 2
        # some runs broke the harness itself while others reached a verdict: the verdicts are still examined (each must reproduce from its
        # replay file in a fresh interpreter); without a verified verdict the exit code stays 2
        harness_failed = True
    if total.runs == 0:
        print(f"HARNESS-ERROR property={prop} no runs executed")
        return 2

    # -- violations: group by signature, minimise, write replay, verify, classify ------------------------
    by_sig: Dict[str, List[Dict[str, Any]]] = {}
    for p in payloads:
        by_sig.setdefault(p["violation"]["signature"], []).append(p)
    exit_code = 0
    known_seen: Dict[str, int] = {}
    min_budget = float(os.environ.get("VERIF_MIN_BUDGET_S", 25 if tier == "quick" else 90))
    reported = 0
    unverified = 0
    for sig in sorted(by_sig):
        group = by_sig[sig]
        known = match_known(sig, open_findings)
        if known is not None:
            known_seen[sig] = sig_counts.get(sig, len(group))
            continue
        if reported >= 3:
            continue
        verified = False
        last_out = ""
        # Try the recorded occurrences in turn until one reproduces from its replay file in a fresh interpreter.  An occurrence can
        # fail to reproduce when the code under test keeps process-global state, so that a run depended on the runs before it in
        # the same worker; such an occurrence is skipped (and said so), never reported.
        for p in group:
            case, choices, vj = p["case"], p["choices"], p["violation"]
            orig_path = write_replay(prop, case, choices, None, vj, p["digest"], suffix="-orig")
            path = orig_path
            try:
                m = minimise(mod, case, choices, vj["signature"], min_budget)
            except Exception as e:
                m = None
                print(f"[check] minimisation raised {type(e).__name__}: {e}")
            if m is not None:
                mcase, mchoices, mr = m
                mv = [v for v in mr.violations if v.sig == vj["signature"]][0]
                path = write_replay(prop, mcase, mchoices, None, mv.to_json(), mr.digest)
                vj = mv.to_json()
                nplan = len(mcase.get("plan", [])) if isinstance(mcase.get("plan"), list) else None
                print(f"[check] minimised: plan ops {len(case.get('plan', [])) if isinstance(case.get('plan'), list) else '-'} -> {nplan}, "
                      f"non-benign choices {sum(len(v) for v in choices.values())} -> {sum(len(v) for v in mchoices.values())}")
            ok, last_out = verify_replay_fresh(path)
            if not ok and path != orig_path:
                ok2, out2 = verify_replay_fresh(orig_path)
                if ok2:
                    path, ok = orig_path, True
            if ok:
                verified = True
                break
            print(f"[check] an occurrence of '{sig}' (seed {case.get('seed')}) did not reproduce from its replay file in a fresh interpreter; trying another")
        if not verified:
            print(f"HARNESS-ERROR property={prop} violation '{sig}' ({sig_counts.get(sig, len(group))} occurrence(s)) did not reproduce from any of its "
                  f"replay files in a fresh interpreter (process-global state in the code under test, or nondeterminism in the harness)\n{last_out[-600:]}")
            unverified += 1
            continue
        print(f"[check] {vj['class']} [{vj['signature']}]: {vj['message']}  ({sig_counts.get(sig, len(group))} occurrence(s))")
        print(f"VIOLATION property={prop} replay={path}", flush=True)
        reported += 1
        exit_code = 1
    if (unverified or harness_failed) and exit_code == 0:
        exit_code = 2
    for e in open_findings:
        n = known_seen.get(e["signature"], 0)
        print(f"KNOWN-FINDING: property={prop} {e.get('what', e['signature'])} [signature={e['signature']}; "
              f"observed {n} time(s) in this run]")

    # -- evidence ----------------------------------------------------------------------------------------------
    wall = time.time() - t_start
    zero_probes = [k for k in getattr(mod, "PROBES", []) if total.probes.get(k, 0) == 0]
    if zero_probes:
        print(f"[check] warning: probes not reached this run: {zero_probes}")
    cov = {
        "evaluations": total.runs,
        "distinct_nontrivial": len(nontrivial),
        "rule": mod.RULE,
        "samples": total.samples[:4] or [{"note": "no sample recorded"}],
        "runs_per_hour": round(total.runs / max(wall_search, 1e-6) * 3600),
        "seeds": {"VERIF_SEED": base_seed, "derivation": "mix(VERIF_SEED, property, run index)", "runs": total.runs},
        "simulated_seconds": round(total.sim_seconds, 1),
        "loop_callbacks_or_scheduler_steps": total.callbacks,
        "fault_kinds_fired": dict(sorted(total.faults.items())),
        "reach_probes": dict(sorted(total.probes.items())),
        "probes_stuck_at_zero": zero_probes,
        "distinct_interleavings": {"measure": getattr(mod, "SHAPE_MEASURE", "hash of per-run shape"), "count": len(shapes)},
        "counters": {k: (round(v, 3) if isinstance(v, float) else v) for k, v in sorted(total.stats.items())},
        "faultfree_runs": total.faultfree_runs,
        "fault_injecting_runs": total.faulty_runs,
        "subspaces": dict(sorted(total.subspaces.items())),
        "components": mod.COMPONENTS,
        "jobs": njobs,
        "workers": workers,
        "known_findings_observed": known_seen,
        "exhaustive": bool(getattr(mod, "EXHAUSTIVE", {}).get(tier, False)),
        "reached_sets": {k: {"size": len(v), "last_grew_at_run": growth.get(k, (0, 0))[0], "of_runs": total.runs,
                             "members": sorted(v)[:60]} for k, v in sorted(total.sets.items())},
    }
    extra = getattr(mod, "evidence_extra", None)
    if extra is not None:
        cov.update(extra(tier, total))
    ev = {
        "property_id": prop, "tier": tier, "seed": base_seed, "level": mod.LEVEL, "coverage": cov,
        "assumptions": mod.ASSUMPTIONS, "wall_s": round(wall, 2), "violations": reported,
    }
    # evidence describes /repo itself: a run against a scratch copy (sensitivity, seeded changes) writes under scratch/ instead
    evdir = os.path.join(VERIF, "evidence")
    if os.path.realpath(os.environ.get("VERIF_REPO", "/repo")) != os.path.realpath("/repo"):
        evdir = os.path.join(VERIF, "scratch", "evidence-other-tree")
        ev["repo"] = os.environ.get("VERIF_REPO")
    os.makedirs(evdir, exist_ok=True)
    with open(os.path.join(evdir, f"{prop}.json"), "w") as f:
        json.dump(ev, f, indent=1, sort_keys=True)
    if tier == "thorough":
        # keep the deep run's evidence next to the per-change one (which the next quick run overwrites)
        os.makedirs(os.path.join(evdir, "thorough"), exist_ok=True)
        with open(os.path.join(evdir, "thorough", f"{prop}.json"), "w") as f:
            json.dump(ev, f, indent=1, sort_keys=True)
    print(f"[check] property={prop} tier={tier}: {total.runs} runs ({len(nontrivial)} distinct non-trivial, "
          f"{len(shapes)} shapes), {total.sim_seconds:.0f} simulated s, {wall:.1f}s wall, "
          f"faults={dict(sorted(total.faults.items()))}, exit={exit_code}", flush=True)
    return exit_code
