"""C03 monitor: on every status-block update of a structure, the change notifications are exactly the ones the
statement prescribes.  Armed on structure *instances* through the public watch()/unwatch() API plus a wrapper on
replace_status_block_segment (no change to behaviour)."""

from __future__ import annotations

import struct as _struct
from typing import Any, Callable, Dict, List, Optional, Tuple

TEMP_CLASS = "GeckoTempStructAccessor"


def raw_of(acc, block: bytes) -> Optional[int]:
    """Independent decode of an item's raw field from its declaration (not via the accessor's own reader)."""
    n = 2 if (acc.type in ("Word", "Time") or getattr(acc, "length", 1) == 2) else 1
    if acc.pos + n > len(block):
        return None
    raw = int.from_bytes(block[acc.pos:acc.pos + n], "big")
    if acc.bitpos is not None:
        mask = 1
        mi = acc.maxitems
        if mi is not None:
            mi = int(mi)
            if mi > 8:
                mask = 15
            elif mi > 4:
                mask = 7
            elif mi > 2:
                mask = 3
        raw = (raw >> acc.bitpos) & mask
    return raw


def decode(acc, block: bytes) -> Any:
    raw = raw_of(acc, block)
    if raw is None:
        return None
    t = acc.type
    if t == "Bool":
        return raw == 1
    if t == "Enum":
        items = acc.items
        return items[raw] if 0 <= raw < len(items) else "Unknown"
    if t == "Time":
        return f"{raw // 256:02}:{raw % 256:02}"
    return raw


class _Observer:
    def __init__(self, mon, acc):
        self.mon = mon
        self.acc = acc

    def on_change(self, sender=None, old=None, new=None):
        self.mon._called(self.acc, sender, old, new)


class NotifyMonitor:
    def __init__(self, world, struct, label: str, prop: str = "C03"):
        self.world = world
        self.struct = struct
        self.label = label
        self.prop = prop
        self.watched: Dict[int, Dict[str, Any]] = {}       # id(accessor) -> info
        self.calls: List[Tuple[Any, Any, Any, Any]] = []     # calls during the current update
        self.outside: List[Any] = []                         # calls that happened outside any update
        self.in_update = False
        self.expect_block: Optional[bytes] = None
        self.stats = {"updates": 0, "notifications": 0, "silent_intersecting": 0, "straddling": 0}
        self._orig = struct.replace_status_block_segment
        mon = self

        def replace(offset, segment):
            return mon._update(offset, segment)
        struct.replace_status_block_segment = replace

    # -- watching --------------------------------------------------------------------------------------------
    def watch(self, acc, times: int = 1) -> None:
        info = self.watched.get(id(acc))
        if info is None:
            # observers are bound methods, as every real client passes (`accessor.watch(self._on_change)`); each registration
            # looks the method up afresh, so two registrations are equal but not identical objects
            info = {"acc": acc, "obj": _Observer(self, acc), "active": True, "twice": False}
            self.watched[id(acc)] = info
        info["active"] = True
        for _ in range(times):
            acc.watch(info["obj"].on_change)
        if times > 1:
            info["twice"] = True
            self.world.result.probe("watched_twice")

    def unwatch(self, acc) -> None:
        info = self.watched.get(id(acc))
        if info is not None and info["active"]:
            acc.unwatch(info["obj"].on_change)
            info["active"] = False
            self.world.result.probe("unwatched")

    def watch_all(self) -> int:
        n = 0
        for acc in list(self.struct.accessors.values()):
            if id(acc) not in self.watched:
                self.watch(acc)
                n += 1
        return n

    # -- observation ---------------------------------------------------------------------------------------------
    def _called(self, acc, sender, old, new) -> None:
        blk = self.struct.status_block
        rec = (acc, sender, old, new, blk)
        if self.in_update:
            self.calls.append(rec)
        else:
            self.outside.append((self.world.now(), acc.tag))

    def _update(self, offset, segment):
        w = self.world
        old_block = self.struct.status_block
        seglen = len(segment)
        new_block = old_block[:offset] + bytes(segment) + old_block[offset + seglen:]
        self.in_update = True
        self.calls = []
        try:
            out = self._orig(offset, segment)
        finally:
            self.in_update = False
        self.stats["updates"] += 1
        res = w.result
        if self.struct.status_block != new_block:
            w.note(self.prop, "block-not-swapped", f"{self.label}: after replacing {seglen} bytes at {offset} the block is not old[:o]+segment+old[o+n:]")
        by_acc: Dict[int, List[Any]] = {}
        for c in self.calls:
            by_acc.setdefault(id(c[0]), []).append(c)
        units_tag = "TempUnits"
        for aid, info in self.watched.items():
            acc = info["acc"]
            got = by_acc.get(aid, [])
            if self.struct.accessors.get(acc.tag) is not acc:
                # not (or no longer) an item of this structure: must stay silent
                if got:
                    w.note(self.prop, "notification-from-stale-item", f"{self.label}: item {acc.tag} is no longer part of the structure but notified")
                continue
            intersects = offset < acc.pos + acc.length and acc.pos < offset + seglen
            is_temp = type(acc).__name__ == TEMP_CLASS
            o_raw, n_raw = raw_of(acc, old_block), raw_of(acc, new_block)
            if is_temp:
                changed = o_raw != n_raw
            else:
                changed = decode(acc, old_block) != decode(acc, new_block)
            want = 1 if (intersects and changed and info["active"]) else 0
            ctx = f"{self.label}: update at {offset} len {seglen}, item {acc.tag} ({acc.type} @{acc.pos} len {acc.length} bitpos {acc.bitpos})"
            if not info["active"] and got:
                w.note(self.prop, "removed-observer-called", f"{ctx}: observer was removed but was called")
                continue
            if len(got) != want:
                if want == 1 and not got:
                    w.note(self.prop, "missed-notification", f"{ctx}: value changed {decode(acc, old_block)!r} -> {decode(acc, new_block)!r} but no notification",
                           sig="missed-notification:" + ("straddle" if not (offset <= acc.pos and acc.pos + acc.length <= offset + seglen) else "inside"))
                elif want == 0 and got:
                    why = "does not intersect" if not intersects else "value unchanged"
                    w.note(self.prop, "spurious-notification", f"{ctx}: notified ({got[0][2]!r} -> {got[0][3]!r}) although the update {why}",
                           sig="spurious-notification:" + why.replace(" ", "-"))
                else:
                    w.note(self.prop, "notified-twice", f"{ctx}: {len(got)} notifications for one change" +
                           (" (observer was registered twice)" if info["twice"] else ""), sig="notified-twice" + (":registered-twice" if info["twice"] else ""))
                continue
            if intersects and not changed and (o_raw != n_raw or old_block[acc.pos:acc.pos + acc.length] != new_block[acc.pos:acc.pos + acc.length]):
                self.stats["silent_intersecting"] += 1
                res.probe("silent_although_bytes_changed")
            if want == 1:
                self.stats["notifications"] += 1
                a, sender, old, new, blk_at_call = got[0]
                if not (offset <= acc.pos and acc.pos + acc.length <= offset + seglen):
                    self.stats["straddling"] += 1
                    res.probe("straddling_update_notified")
                if sender is not acc:
                    w.note(self.prop, "wrong-sender", f"{ctx}: notification sender is {sender!r}")
                if blk_at_call != new_block:
                    w.note(self.prop, "observer-saw-old-block", f"{ctx}: when the observer ran the structure did not hold the new block yet")
                if not is_temp:
                    eo, en = decode(acc, old_block), decode(acc, new_block)
                    if old != eo or new != en:
                        w.note(self.prop, "wrong-values", f"{ctx}: notified {old!r} -> {new!r}, decoded values are {eo!r} -> {en!r}")
                else:
                    if old == new:
                        w.note(self.prop, "wrong-values", f"{ctx}: temperature notified with equal old and new values {old!r}")
        # calls from accessors that are not watched by the monitor cannot exist (we only see our own observers)
        return out

    def finish(self) -> None:
        if self.outside:
            t, tag = self.outside[0]
            self.world.note(self.prop, "notification-outside-update", f"{self.label}: item {tag} notified at {t:.3f} outside any block update")

    def unwrap(self) -> None:
        try:
            del self.struct.replace_status_block_segment
        except AttributeError:
            pass
