"""C03 monitor: on every status-block update of a structure, the change notifications are exactly the ones the
statement prescribes.  Armed on structure *instances* through the public watch()/unwatch() API plus a wrapper on
replace_status_block_segment (no change to behaviour)."""

from __future__ import annotations

import struct as _struct
from typing import Any, Callable, Dict, List, Optional, Tuple

TEMP_CLASS = "GeckoTempStructAccessor"


def raw_of(acc, block: bytes) -> Optional[int]:
    """Independent decode of an item's raw field from its declaration (not via the accessor's own reader)."""
    n = 2 if (acc.type in ("Word", "Time") or getattr(acc, "length", 1) == 2) else 1
    if acc.pos + n > len(block):
        return None
    raw = int.from_bytes(block[acc.pos:acc.pos + n], "big")
    if acc.bitpos is not None:
        mask = 1
        mi = acc.maxitems
        if mi is not None:
            mi = int(mi)
            if mi > 8:
                mask = 15
            elif mi > 4:
                mask = 7
            elif mi > 2:
                mask = 3
        raw = (raw >> acc.bitpos) & mask
    return raw


def decode(acc, block: bytes) -> Any:
    raw = raw_of(acc, block)
    if raw is None:
        return None
    t = acc.type
    if t == "Bool":
        return raw == 1
    if t == "Enum":
        items = acc.items
        return items[raw] if 0 <= raw < len(items) else "Unknown"
    if t == "Time":
        return f"{raw // 256:02}:{raw % 256:02}"
    return raw


class _Observer:
    def __init__(self, mon, acc, idx: int = 0):
        self.mon = mon
        self.acc = acc
        self.idx = idx            # 0 = the primary observer, 1.. = additional independent observers on the same item
        self.armed: Optional[str] = None     # a re-entrant action to perform from inside the next callback

    def on_change(self, sender=None, old=None, new=None):
        self.mon._called(self.acc, sender, old, new, self)
        if self.armed is not None:
            action, self.armed = self.armed, None
            try:
                self.mon._reentrant(self, action)
            except Exception as e:       # a fault of the harness' own action must not look like a fault of the library's walk
                if self.mon.harness_error is None:
                    self.mon.harness_error = e


class NotifyMonitor:
    def __init__(self, world, struct, label: str, prop: str = "C03"):
        self.world = world
        self.struct = struct
        self.label = label
        self.prop = prop
        self.watched: Dict[int, Dict[str, Any]] = {}       # id(accessor) -> info
        self.calls: List[Tuple[Any, Any, Any, Any]] = []     # calls during the current update
        self.outside: List[Any] = []                         # calls that happened outside any update
        self.in_update = False
        self.harness_error: Optional[BaseException] = None
        self._frames: List[Dict[str, Any]] = []              # one per block update in progress (an observer may start a nested update)
        self.expect_block: Optional[bytes] = None
        self.stats = {"updates": 0, "notifications": 0, "silent_intersecting": 0, "straddling": 0}
        self.extra_calls: Dict[int, List[int]] = {}          # id(accessor) -> indices of additional observers called in this update
        self.reentrant_log: List[Tuple[int, str]] = []
        self._orig = struct.replace_status_block_segment
        self.groups: Dict[Any, Dict[str, Any]] = {}          # task running a refresh (struct.get) -> what it did
        self._cur_group = None
        self._orig_get = None
        mon = self

        def replace(offset, segment):
            return mon._update(offset, segment)
        struct.replace_status_block_segment = replace

    # -- refreshes: one struct.get() is ONE update of the block -------------------------------------------------
    def wrap_get(self) -> None:
        """A refresh (multi-datagram transfer) is one update: its observers are called once per item and already read the refreshed
        block.  Wraps the instance's get() to group the block updates made by the task that runs it."""
        import asyncio

        orig_get = self.struct.get
        self._orig_get = orig_get
        mon = self

        async def get(*a, **k):
            task = asyncio.current_task()
            g = {"updates": [], "calls": [], "foreign": 0}
            mon.groups[task] = g
            try:
                ok = await orig_get(*a, **k)
            finally:
                mon.groups.pop(task, None)
            if ok:
                mon._judge_group(g)
            return ok
        self.struct.get = get

    def _judge_group(self, g: Dict[str, Any]) -> None:
        w = self.world
        if not g["updates"]:
            return
        if len(g["updates"]) > 1:
            w.result.probe("refresh_applied_in_several_updates")
        if g["foreign"]:
            w.result.probe("refresh_interleaved_with_other_updates")
            return
        final = self.struct.status_block
        lo = min(o for o, n in g["updates"])
        hi = max(o + n for o, n in g["updates"])
        seen: Dict[int, int] = {}
        for acc, blk in g["calls"]:
            seen[id(acc)] = seen.get(id(acc), 0) + 1
            if blk[lo:hi] != final[lo:hi]:
                w.note(self.prop, "observer-saw-old-block", f"{self.label}: during the refresh of [{lo},{hi}) the observer of {acc.tag} (@{acc.pos}) was called "
                       f"while the structure still held old bytes of that range (the refresh was applied in {len(g['updates'])} pieces)",
                       sig="observer-saw-old-block:refresh-in-pieces")
            if seen[id(acc)] == 2:
                w.note(self.prop, "notified-twice", f"{self.label}: item {acc.tag} (@{acc.pos} len {acc.length}) was notified twice by one refresh of [{lo},{hi}) "
                       f"(applied in {len(g['updates'])} pieces)", sig="notified-twice:one-refresh")
        w.result.probe("refresh_judged_as_one_update")

    # -- watching --------------------------------------------------------------------------------------------
    def watch(self, acc, times: int = 1) -> None:
        info = self.watched.get(id(acc))
        if info is None:
            # observers are bound methods, as every real client passes (`accessor.watch(self._on_change)`); each registration
            # looks the method up afresh, so two registrations are equal but not identical objects
            info = {"acc": acc, "obj": _Observer(self, acc), "active": False, "twice": False, "order": []}
            self.watched[id(acc)] = info
        if not info["active"]:
            info["order"].append(0)          # registration order of the item's observers (0 = primary)
        info["active"] = True
        for _ in range(times):
            acc.watch(info["obj"].on_change)
        if times > 1:
            info["twice"] = True
            self.world.result.probe("watched_twice")

    def add_observers(self, acc, n: int = 2) -> None:
        """Further independent observers on an item that is being watched (clients commonly have several per item)."""
        info = self.watched.get(id(acc))
        if info is None or not info["active"] or info.get("extra"):
            return
        info["extra"] = [_Observer(self, acc, i + 1) for i in range(n)]
        info["extra_active"] = [True] * n
        for o in info["extra"]:
            acc.watch(o.on_change)
            info["order"].append(o.idx)
        self.world.result.probe("several_observers_on_one_item")

    def arm(self, acc, who: int, action: str) -> None:
        """Arm observer `who` (0 = primary) of the item to unwatch itself / the next observer / all from inside its next callback."""
        info = self.watched.get(id(acc))
        if info is None or not info["active"] or (not info.get("extra") and not action.startswith("write_other:")):
            return
        obs = ([info["obj"]] + info.get("extra", []))[who % (1 + len(info.get("extra", [])))]
        if obs.idx > 0 and not info["extra_active"][obs.idx - 1]:
            return
        obs.armed = action

    def _reentrant(self, obs, action: str) -> None:
        info = self.watched[id(obs.acc)]
        alln = [info["obj"]] + info.get("extra", [])
        self.world.result.probe("reentrant_" + action.split(":")[0])
        def off(i: int) -> None:
            if i == 0:
                info["active"] = False
            else:
                info["extra_active"][i - 1] = False
            if i in info["order"]:
                info["order"].remove(i)

        if action.startswith("write_other:"):
            # the observer reacts to the change by writing another item of the same structure through the structure's own entry point
            # (on the spa side the write is applied at once: a block update nested inside the one that is still walking its items)
            _, pos, val = action.split(":")
            self.struct.set_value(int(pos), 1, int(val))
            self.world.result.probe("observer_writes_another_item_during_the_update")
        elif action == "unwatch_all":
            obs.acc.unwatch_all()
            for i in range(len(alln)):
                off(i)
        elif action == "unwatch_self":
            obs.acc.unwatch(obs.on_change)
            off(obs.idx)
        elif action in ("unwatch_next", "swap_next"):
            nxt = alln[(obs.idx + 1) % len(alln)]
            is_on = info["active"] if nxt.idx == 0 else info["extra_active"][nxt.idx - 1]
            if is_on and nxt is not obs:
                obs.acc.unwatch(nxt.on_change)
                off(nxt.idx)
                if action == "swap_next":
                    # ... and registers a brand-new observer in the same breath: the list has the length it had before
                    new = _Observer(self, obs.acc, len(alln))
                    info["extra"].append(new)
                    info["extra_active"].append(True)
                    info["order"].append(new.idx)
                    info.setdefault("fresh", set()).add(new.idx)
                    obs.acc.watch(new.on_change)
        self.reentrant_log.append((obs.idx, action))

    def unwatch(self, acc) -> None:
        info = self.watched.get(id(acc))
        if info is not None and info["active"]:
            acc.unwatch(info["obj"].on_change)
            info["active"] = False
            info["order"].remove(0)
            self.world.result.probe("unwatched")

    def unwatch_all(self, acc) -> None:
        acc.unwatch_all()
        info = self.watched.get(id(acc))
        if info:
            info["active"] = False
            info["order"] = []
            if info.get("extra"):
                info["extra_active"] = [False] * len(info["extra"])
        self.world.result.probe("unwatch_all")

    def watch_all(self) -> int:
        n = 0
        for acc in list(self.struct.accessors.values()):
            if id(acc) not in self.watched:
                self.watch(acc)
                n += 1
        return n

    # -- observation ---------------------------------------------------------------------------------------------
    def _called(self, acc, sender, old, new, obs=None) -> None:
        blk = self.struct.status_block
        rec = (acc, sender, old, new, blk)
        if obs is not None and obs.idx > 0:
            # additional observers are judged by count only (the primary carries the value checks)
            info = self.watched[id(acc)]
            if not info["extra_active"][obs.idx - 1]:
                self.world.note(self.prop, "removed-observer-called", f"{self.label}: item {acc.tag}: observer #{obs.idx} was removed "
                                f"(re-entrantly, by an earlier observer of the same notification: {self.reentrant_log[-3:]}) but was still called",
                                sig="removed-observer-called:reentrant")
            (self._frames[-1]["extra_calls"] if self._frames else self.extra_calls).setdefault(id(acc), []).append(obs.idx)
            if not self.in_update:
                self.outside.append((self.world.now(), acc.tag))
            return
        if obs is not None and obs.idx == 0 and self.watched[id(acc)].get("extra") and not self.watched[id(acc)]["active"] and self.in_update:
            self.world.note(self.prop, "removed-observer-called", f"{self.label}: item {acc.tag}: the primary observer was removed re-entrantly "
                            f"({self.reentrant_log[-3:]}) but was still called", sig="removed-observer-called:reentrant")
        if self.in_update:
            (self._frames[-1]["calls"] if self._frames else self.calls).append(rec)
            if self._cur_group is not None:
                self._cur_group["calls"].append((acc, blk))
        else:
            self.outside.append((self.world.now(), acc.tag))

    def _update(self, offset, segment):
        w = self.world
        self._cur_group = None
        if self.groups:
            import asyncio

            try:
                task = asyncio.current_task()
            except RuntimeError:
                task = None
            self._cur_group = self.groups.get(task)
            for t, g in self.groups.items():
                if g is self._cur_group:
                    g["updates"].append((offset, len(segment)))
                elif g["updates"]:
                    g["foreign"] += 1          # another update landed between two pieces of this refresh
        old_block = self.struct.status_block
        seglen = len(segment)
        new_block = old_block[:offset] + bytes(segment) + old_block[offset + seglen:]
        self.in_update = True
        frame: Dict[str, Any] = {"calls": [], "extra_calls": {}, "nested": []}
        self._frames.append(frame)
        # items with several observers: registration order and armed re-entrant actions as they are when the update starts
        pre: Dict[int, Any] = {}
        for aid, info in self.watched.items():
            if info.get("extra"):
                alln = [info["obj"]] + info["extra"]
                pre[aid] = (list(info["order"]), {o.idx: o.armed for o in alln if o.armed}, len(alln))
        try:
            out = self._orig(offset, segment)
        finally:
            self._frames.pop()
            self.in_update = bool(self._frames)
            if self._frames:
                # this update ran inside an observer of an outer update: the outer one is judged around it
                self._frames[-1]["nested"].append((offset, seglen))
                self._frames[-1]["nested"].extend(frame["nested"])
        self.calls = frame["calls"]
        self.extra_calls = frame["extra_calls"]
        nested = frame["nested"]
        if nested:
            w.result.probe("update_nested_inside_an_update")
            # what the outer update is answerable for: its own bytes; the nested ones changed theirs on top
            for (no, nl) in nested:
                cur = self.struct.status_block
                new_block = new_block[:no] + cur[no:no + nl] + new_block[no + nl:]
        self.stats["updates"] += 1
        res = w.result
        if self.struct.status_block != new_block:
            w.note(self.prop, "block-not-swapped", f"{self.label}: after replacing {seglen} bytes at {offset} the block is not old[:o]+segment+old[o+n:]")
        by_acc: Dict[int, List[Any]] = {}
        for c in self.calls:
            by_acc.setdefault(id(c[0]), []).append(c)
        units_tag = "TempUnits"
        for aid, info in self.watched.items():
            acc = info["acc"]
            got = by_acc.get(aid, [])
            if self.struct.accessors.get(acc.tag) is not acc:
                # not (or no longer) an item of this structure: must stay silent
                if got:
                    w.note(self.prop, "notification-from-stale-item", f"{self.label}: item {acc.tag} is no longer part of the structure but notified")
                continue
            intersects = offset < acc.pos + acc.length and acc.pos < offset + seglen
            if nested and any(no < acc.pos + max(acc.length, 2) and acc.pos < no + nl for (no, nl) in nested):
                continue        # also changed by a nested update: both updates speak about it, not judged here
            is_temp = type(acc).__name__ == TEMP_CLASS
            o_raw, n_raw = raw_of(acc, old_block), raw_of(acc, new_block)
            if is_temp:
                changed = o_raw != n_raw
            else:
                changed = decode(acc, old_block) != decode(acc, new_block)
            ctx = f"{self.label}: update at {offset} len {seglen}, item {acc.tag} ({acc.type} @{acc.pos} len {acc.length} bitpos {acc.bitpos})"
            active = info["active"]
            if aid in pre:
                # reference semantics for several observers: those registered when the update starts are called once each, in
                # registration order, except the ones an earlier observer of this very notification removed before their turn
                order, armed, nobs = pre[aid]
                expected: List[int] = []
                if intersects and changed:
                    reg = set(order)
                    for idx in order:
                        if idx not in reg:
                            continue
                        expected.append(idx)
                        act = armed.get(idx)
                        if act == "unwatch_all":
                            reg.clear()
                        elif act == "unwatch_self":
                            reg.discard(idx)
                        elif act in ("unwatch_next", "swap_next"):
                            nxt = (idx + 1) % nobs
                            if nxt != idx:
                                reg.discard(nxt)
                active = 0 in order
                xc = self.extra_calls.get(aid, [])
                for idx in range(1, nobs):
                    wantx = 1 if idx in expected else 0
                    if xc.count(idx) != wantx:
                        how = f"re-entrant actions in this notification: {sorted(armed.items())}" if armed else "no re-entrant action"
                        cls = "missed-notification" if xc.count(idx) < wantx else ("notified-twice" if wantx else "spurious-notification")
                        w.note(self.prop, cls, f"{ctx}: observer #{idx} of {nobs} (registration order {order}) was called {xc.count(idx)} time(s), "
                               f"expected {wantx}; {how}", sig=f"{cls}:several-observers" + (":reentrant" if armed else ""))
                want = 1 if 0 in expected else 0
                if armed and want == 1 and not got:
                    w.note(self.prop, "missed-notification", f"{ctx}: the primary observer (registration order {order}) was not called; "
                           f"re-entrant actions in this notification: {sorted(armed.items())}", sig="missed-notification:several-observers:reentrant")
                    continue
            else:
                want = 1 if (intersects and changed and active) else 0
            if not active and got:
                w.note(self.prop, "removed-observer-called", f"{ctx}: observer was removed but was called")
                continue
            if len(got) != want:
                if want == 1 and not got:
                    w.note(self.prop, "missed-notification", f"{ctx}: value changed {decode(acc, old_block)!r} -> {decode(acc, new_block)!r} but no notification",
                           sig="missed-notification:" + ("straddle" if not (offset <= acc.pos and acc.pos + acc.length <= offset + seglen) else "inside"))
                elif want == 0 and got:
                    why = "does not intersect" if not intersects else "value unchanged"
                    w.note(self.prop, "spurious-notification", f"{ctx}: notified ({got[0][2]!r} -> {got[0][3]!r}) although the update {why}",
                           sig="spurious-notification:" + why.replace(" ", "-"))
                else:
                    w.note(self.prop, "notified-twice", f"{ctx}: {len(got)} notifications for one change" +
                           (" (observer was registered twice)" if info["twice"] else ""), sig="notified-twice" + (":registered-twice" if info["twice"] else ""))
                continue
            if intersects and not changed and (o_raw != n_raw or old_block[acc.pos:acc.pos + acc.length] != new_block[acc.pos:acc.pos + acc.length]):
                self.stats["silent_intersecting"] += 1
                res.probe("silent_although_bytes_changed")
            if want == 1:
                self.stats["notifications"] += 1
                a, sender, old, new, blk_at_call = got[0]
                if not (offset <= acc.pos and acc.pos + acc.length <= offset + seglen):
                    self.stats["straddling"] += 1
                    res.probe("straddling_update_notified")
                if sender is not acc:
                    w.note(self.prop, "wrong-sender", f"{ctx}: notification sender is {sender!r}")
                if blk_at_call != new_block and not (nested and blk_at_call[offset:offset + seglen] == bytes(segment)):
                    w.note(self.prop, "observer-saw-old-block", f"{ctx}: when the observer ran the structure did not hold the new block yet")
                if not is_temp:
                    eo, en = decode(acc, old_block), decode(acc, new_block)
                    if old != eo or new != en:
                        w.note(self.prop, "wrong-values", f"{ctx}: notified {old!r} -> {new!r}, decoded values are {eo!r} -> {en!r}")
                else:
                    if old == new:
                        w.note(self.prop, "wrong-values", f"{ctx}: temperature notified with equal old and new values {old!r}")
        # calls from accessors that are not watched by the monitor cannot exist (we only see our own observers)
        return out

    def finish(self) -> None:
        if self.harness_error is not None:
            from .core import HarnessError

            raise HarnessError(f"re-entrant harness action failed: {self.harness_error!r}")
        if self.outside:
            t, tag = self.outside[0]
            self.world.note(self.prop, "notification-outside-update", f"{self.label}: item {tag} notified at {t:.3f} outside any block update")

    def unwrap(self) -> None:
        try:
            del self.struct.replace_status_block_segment
        except AttributeError:
            pass
        if self._orig_get is not None:
            try:
                del self.struct.get
            except AttributeError:
                pass
