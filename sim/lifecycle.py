"""Reference lifecycle model and the oracle that walks the observations of a SimSpaMan against it (C08).

Written from the property statement and the event/state docstrings, not from `_handle_event`.
"""

from __future__ import annotations

from typing import Any, Dict, List, Optional, Set

ERROR_RESETTABLE = {"ERROR_PING_MISSED", "ERROR_RF_FAULT", "ERROR_NEEDS_ATTENTION"}
ANNOUNCEMENTS = {"CLIENT_HAS_STATUS_SENSOR", "CLIENT_HAS_RECONNECT_BUTTON", "CLIENT_HAS_PING_SENSOR",
                 "CLIENT_FACADE_IS_READY", "CLIENT_FACADE_TEARDOWN"}
STATE_TEXT = {
    "CONNECTED": "Connected", "CONNECTING": "Connecting...", "ERROR_RF_FAULT": "Lost contact with spa (RFERR)",
    "ERROR_PING_MISSED": "Lost contact with in.touch2 module", "ERROR_NEEDS_ATTENTION": "Needs attention, check logs",
    "LOCATING_SPAS": "Searching for spas...", "LOCATED_SPAS": "Choose spa", "ERROR_SPA_NOT_FOUND": "Cannot find spa, check logs",
}


def next_state(state: str, event: str, facade_present: bool) -> str:
    """The lifecycle table."""
    if event == "LOCATING_STARTED":
        return "LOCATING_SPAS"
    if event == "LOCATING_FINISHED":
        return "LOCATED_SPAS"
    if event == "SPA_NOT_FOUND":
        return "ERROR_SPA_NOT_FOUND"
    if event == "CONNECTION_STARTED":
        return "CONNECTING"
    if event == "CONNECTION_SPA_COMPLETE":
        return "SPA_READY"
    if event == "CONNECTION_FINISHED":
        return "CONNECTED" if facade_present else state
    if state == "CONNECTED":
        if event == "RUNNING_PING_NO_RESPONSE":
            return "ERROR_PING_MISSED"
        if event == "ERROR_RF_ERROR":
            return "ERROR_RF_FAULT"
        if event == "RUNNING_SPA_DISCONNECTED":
            return "IDLE"
    if event == "RUNNING_PING_RECEIVED" and state in ERROR_RESETTABLE:
        return "IDLE"          # via reset
    if event in ("CONNECTION_PROTOCOL_RETRY_COUNT_EXCEEDED", "ERROR_PROTOCOL_RETRY_COUNT_EXCEEDED", "ERROR_TOO_MANY_RF_ERRORS"):
        return "ERROR_NEEDS_ATTENTION"
    return state


def state_text(state) -> str:
    return STATE_TEXT.get(state.name, f"{state}")


class LifecycleOracle:
    """Feed it every observation in global order; it records problems (first one per class is kept)."""

    def __init__(self) -> None:
        self.prev_state = "IDLE"
        self.owe_not_found: Dict[Any, Any] = {}
        self.resets_seen = 0
        self.locate_pass: Dict[Any, Dict[str, Any]] = {}
        self.discovered = 0
        self.problems: List[Dict[str, Any]] = []
        self.ready = 0
        self.teardown = 0
        self.teardown_since_ready = 0
        self.ever_ready = False
        self.pending_ann: Dict[str, List[Dict[str, Any]]] = {}     # task -> announcements awaiting their outer event
        self.open_phase: Dict[str, Dict[str, int]] = {}            # task -> {"LOCATING": n, "CONNECTION": n}
        self.user_resets = 0                                        # harness reset/set_info/exit calls in progress
        self.internal_reset_tasks: Set[str] = set()
        self.internal_reset_objs: Dict[str, Any] = {}
        self.pairs: Set[Any] = set()
        self.abstract: Set[Any] = set()
        self.n_obs = 0

    # -- helpers -----------------------------------------------------------------------------------------
    def _problem(self, cls: str, msg: str, sig: Optional[str] = None) -> None:
        if not any(p["cls"] == cls and p.get("sig") == sig for p in self.problems):
            self.problems.append({"cls": cls, "msg": msg, "sig": sig or cls})

    def _reset_in_progress(self) -> bool:
        return self.user_resets > 0 or bool(self.internal_reset_tasks)

    def user_reset_begin(self) -> None:
        self.user_resets += 1
        self.resets_seen += 1

    def user_reset_end(self, t: float, state: str, facade, descriptors, spa, what: str, overlapped: bool = False) -> None:
        # the return of a reset is itself an observation point: the reset's final "-> IDLE" has no delivery
        self.prev_state = state
        self.user_resets -= 1
        bad = []
        if state != "IDLE":
            bad.append(f"state {state}")
        if facade is not None:
            bad.append("facade still set")
        if descriptors is not None:
            bad.append("descriptors still set")
        if spa is not None:
            bad.append("spa still set")
        if bad:
            sig = "reset-not-idle:" + "+".join(sorted(b.split()[0] for b in bad))
            if overlapped:
                # history signature: other tasks delivered events (the pump ran) while this reset was suspended in the client's handler
                sig = "reset-not-idle:other-tasks-ran-during-suspended-reset"
            self._problem("reset-not-idle", f"{what} returned at {t:.3f} with " + ", ".join(bad) +
                          (" (other tasks delivered events while the reset was suspended in the client's handler)" if overlapped else ""), sig=sig)

    def task_ended(self, task: str) -> None:
        self.internal_reset_tasks.discard(task)
        self.pending_ann.pop(task, None)

    # -- observations --------------------------------------------------------------------------------------
    def sample(self, t: float, state: str, facade, facade_spa_connected: Optional[bool]) -> None:
        """State sampled at a callback boundary (no delivery)."""
        # the library's own reset (a ping answered in an error state) must land in IDLE like any reset: the task that runs it may
        # not end while the state is still the error state
        if self.internal_reset_tasks and self.user_resets == 0:
            for key in list(self.internal_reset_tasks):
                obj = self.internal_reset_objs.get(key)
                if obj is not None and obj.done():
                    self.internal_reset_tasks.discard(key)
                    if state in ERROR_RESETTABLE:
                        self._problem("reset-not-idle", f"t={t:.3f}: the task {key} that was running the library's own reset ended, but the state is "
                                      f"still {state} (the reset did not land in IDLE)", sig="reset-not-idle:library-reset-cut-short")
        if state == "CONNECTED":
            if facade is None:
                self._problem("connected-without-facade", f"t={t:.3f}: state CONNECTED but the facade is None")
            elif facade_spa_connected is False:
                self._problem("connected-without-facade", f"t={t:.3f}: state CONNECTED but the facade's spa is not connected "
                              f"(user reset in progress: {self.user_resets > 0})",
                              sig="connected-without-facade:spa-disconnected-by-user-reset-in-progress" if self.user_resets > 0 else None)
        if state != self.prev_state:
            if state == "IDLE" and self._reset_in_progress():
                if self.user_resets == 0:
                    self.internal_reset_tasks.clear()      # the internal reset has landed
            else:
                self._problem("silent-state-change", f"t={t:.3f}: state went {self.prev_state} -> {state} between deliveries with "
                              f"no reset in progress", sig=f"silent-state-change:{self.prev_state}->{state}")
            self.prev_state = state

    def delivery(self, d: Dict[str, Any]) -> None:
        self.n_obs += 1
        ev = d["event"].name
        st = d["state"].name
        t = d["t"]
        task = d.get("task_key") or d["task"]
        fp = d["facade_present"]
        prev = self.prev_state
        self.pairs.add((prev, ev))
        # status sensor mirrors the state at every delivery
        if d["sensor"] is not None and d["sensor"] != state_text(d["state"]):
            self._problem("sensor-text", f"t={t:.3f} {ev}: status sensor says {d['sensor']!r} while the state is {st}")
        if st == "CONNECTED" and not fp:
            self._problem("connected-without-facade", f"t={t:.3f} {ev}: state CONNECTED but the facade is None")

        if ev in ANNOUNCEMENTS:
            self.pending_ann.setdefault(task, []).append({"ev": ev, "prev": prev, "st": st, "fp": fp, "t": t})
            if ev == "CLIENT_FACADE_IS_READY":
                self.ready += 1
                self.ever_ready = True
                self.teardown_since_ready = 0
                if st != "CONNECTED" or not fp:
                    self._problem("ready-outside-connected", f"t={t:.3f}: CLIENT_FACADE_IS_READY delivered in state {st}, facade present={fp}")
                if prev == "CONNECTED":
                    self._problem("ready-without-entering-connected", f"t={t:.3f}: CLIENT_FACADE_IS_READY delivered but CONNECTED was not being entered")
            elif ev == "CLIENT_FACADE_TEARDOWN":
                self.teardown += 1
                self.teardown_since_ready += 1
                if self.teardown > self.ready:
                    self._problem("teardown-without-ready", f"t={t:.3f}: more facade teardowns ({self.teardown}) than readies ({self.ready})")
                elif self.teardown_since_ready > 1:
                    self._problem("teardown-twice", f"t={t:.3f}: second CLIENT_FACADE_TEARDOWN since the last CLIENT_FACADE_IS_READY")
                if not fp:
                    sig = "teardown-without-facade"
                    if self.user_resets > 0 and prev == "CONNECTED":
                        sig = "teardown-without-facade:user-reset-from-CONNECTED"
                    self._problem("teardown-without-facade", f"t={t:.3f}: CLIENT_FACADE_TEARDOWN delivered while the facade is None "
                                  f"(state {prev}->{st}, user reset in progress: {self.user_resets > 0})", sig=sig)
            if st != prev:
                if st == "CONNECTED" and ev != "CLIENT_FACADE_IS_READY":
                    self._problem("connected-without-ready", f"t={t:.3f}: CONNECTED entered at {ev}, not announced by CLIENT_FACADE_IS_READY")
            self.prev_state = st
            return

        # ordinary event ------------------------------------------------------------------------------------
        # outcome "nobody answered": the locate pass that a connect runs itself (started from LOCATED_SPAS) and that discovered no spa is
        # followed, in the same task, by SPA_NOT_FOUND (-> ERROR_SPA_NOT_FOUND); nothing else may come first
        owed = self.owe_not_found.pop(task, None)
        if owed is not None and owed[1] != self.resets_seen:
            owed = None          # a reset intervened (it clears what the connect was working on): nothing is owed any more
        if owed is not None:
            owed = owed[0]
        if owed is not None and ev != "SPA_NOT_FOUND" and not self._reset_in_progress():
            self._problem("missing-not-found", f"t={t:.3f}: the locate pass of a connect finished at {owed:.3f} without discovering a spa, but the next "
                          f"event of {d['task']} is {ev} (state {st}), not SPA_NOT_FOUND", sig="missing-not-found")
        if ev == "LOCATING_STARTED":
            self.locate_pass[task] = {"second": prev == "LOCATED_SPAS", "disc0": self.discovered}
        if d.get("raised") and task in self.locate_pass:
            self.locate_pass[task]["raised"] = True      # the client's handler failed inside this pass: the pass raises, no outcome is owed
        if ev == "LOCATING_STARTED":
            pass
        elif ev == "LOCATING_DISCOVERED_SPA":
            self.discovered += 1
        elif ev == "LOCATING_FINISHED":
            lp = self.locate_pass.pop(task, None)
            if lp is not None and lp["second"] and self.discovered == lp["disc0"] and not self._reset_in_progress() and not d.get("cancelled_in_handler") \
                    and not lp.get("raised") and not d.get("raised"):
                self.owe_not_found[task] = (t, self.resets_seen)
        anns = self.pending_ann.pop(task, [])
        changed_at_ann = [a for a in anns if a["st"] != a["prev"]]
        if changed_at_ann:
            a = changed_at_ann[0]
            want = next_state(a["prev"], ev, a["fp"] if ev == "CONNECTION_FINISHED" else fp)
            if ev == "RUNNING_PING_RECEIVED" and a["prev"] in ERROR_RESETTABLE:
                want = a["st"]            # the reset's own teardown steps are judged below
            if a["st"] != want and not (a["st"] == "IDLE" and self._reset_in_progress()):
                self._problem("illegal-transition", f"t={a['t']:.3f}: state went {a['prev']} -> {a['st']} at {a['ev']} on behalf of {ev}; "
                              f"the table gives {want}", sig=f"illegal-transition:{a['prev']}+{ev}->{a['st']}")
        if st != prev:
            want = next_state(prev, ev, fp)
            ok = (st == want) or (st == "IDLE" and self._reset_in_progress())
            if ev == "RUNNING_PING_RECEIVED" and task in self.internal_reset_tasks:
                ok = ok or st == "IDLE"
            if not ok:
                self._problem("illegal-transition", f"t={t:.3f}: state went {prev} -> {st} at {ev}; the table gives {want}",
                              sig=f"illegal-transition:{prev}+{ev}->{st}")
            if st == "CONNECTED":
                self._problem("connected-without-ready", f"t={t:.3f}: CONNECTED entered at {ev} without CLIENT_FACADE_IS_READY")
        else:
            want = next_state(prev, ev, fp)
            if want != prev and not changed_at_ann:
                # the table demands a change that did not happen
                if not (ev == "RUNNING_PING_RECEIVED"):      # a reset is long; its IDLE may land later
                    self._problem("missing-transition", f"t={t:.3f}: {ev} in state {prev} should give {want}, state stayed {st}",
                                  sig=f"missing-transition:{prev}+{ev}")
        # resets -------------------------------------------------------------------------------------------
        if ev == "RUNNING_SPA_DISCONNECTED":
            if self.user_resets > 0:
                pass
            elif st in ERROR_RESETTABLE or prev in ERROR_RESETTABLE:
                self.internal_reset_tasks.add(task)
                self.internal_reset_objs[task] = d.get("task_obj")
                self.resets_seen += 1
            else:
                self._problem("unrequested-reset", f"t={t:.3f}: RUNNING_SPA_DISCONNECTED delivered by {task} in state {prev}->{st} with no "
                              f"user reset in progress and no error state to recover from")
        elif ev == "RUNNING_PING_RECEIVED":
            if task in self.internal_reset_tasks:
                self.internal_reset_tasks.discard(task)
            if st in ERROR_RESETTABLE and not self._reset_in_progress():
                self._problem("ping-received-in-error-state", f"t={t:.3f}: RUNNING_PING_RECEIVED delivered while the state is still {st}")
        # brackets -------------------------------------------------------------------------------------------
        if ev in ("LOCATING_STARTED", "CONNECTION_STARTED"):
            k = ev.split("_")[0]
            ph = self.open_phase.setdefault(task, {})
            if ph.get(k, 0) > 0:
                self._problem("phase-not-closed", f"t={t:.3f}: {ev} delivered by {task} while its previous {k} phase has no FINISHED")
            ph[k] = ph.get(k, 0) + 1
        elif ev in ("LOCATING_FINISHED", "CONNECTION_FINISHED"):
            k = ev.split("_")[0]
            ph = self.open_phase.setdefault(task, {})
            if ph.get(k, 0) <= 0:
                self._problem("finished-without-started", f"t={t:.3f}: {ev} delivered by {task} without a matching STARTED")
            else:
                ph[k] -= 1
        self.prev_state = st

    def finish(self, t: float, exempt_tasks: Optional[Set[str]] = None) -> None:
        for task, ph in self.open_phase.items():
            if exempt_tasks and task in exempt_tasks:
                continue
            for k, n in ph.items():
                if n > 0:
                    self._problem("phase-not-closed", f"end of run t={t:.3f}: {k}_STARTED by {task} was never followed by {k}_FINISHED")
