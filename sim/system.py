"""Full-system fixture for World A: real manager + locator + spa + facade against a (Model)Spa peer."""

from __future__ import annotations

import asyncio
import os
import random
from typing import Any, Dict, List, Optional

from .client import (SPA_ID, SPA_NAME, CallRecorder, InstallRecorder, QueueRecorder, make_spaman_class)
from .core import HarnessError
from .net import SPA_IP
from .peers import SpaPeer, model_spa_class, repo_root, snapshot_files


def draw_tables(rng: random.Random, fast: bool = True) -> Dict[str, Dict[str, float]]:
    """Per-run active/idle timing tables (the class tables are patched; set_config_mode copies from them)."""
    def one():
        return {
            "DISCOVERY_INITIAL_TIMEOUT_IN_SECONDS": rng.choice([1, 2, 4]),
            "DISCOVERY_TIMEOUT_IN_SECONDS": rng.choice([4, 6, 10]),
            "TASK_TIDY_FREQUENCY_IN_SECONDS": rng.choice([5, 60]),
            "PING_FREQUENCY_IN_SECONDS": rng.choice([1, 2, 5]) if fast else rng.choice([2, 10, 60]),
            "PING_DEVICE_NOT_RESPONDING_TIMEOUT_IN_SECONDS": rng.choice([4, 10, 30]),
            "FACADE_UPDATE_FREQUENCY_IN_SECONDS": rng.choice([5, 30, 120]),
            "SPA_PACK_REFRESH_FREQUENCY_IN_SECONDS": rng.choice([5, 30, 120]),
            "PROTOCOL_TIMEOUT_IN_SECONDS": rng.choice([0.5, 1, 2, 4]),
            "PROTOCOL_RETRY_COUNT": rng.choice([3, 10]),
            "PAUSE_BETWEEN_RETRIES_IN_SECONDS": rng.choice([0.2, 1, 2]),
        }
    a, i = one(), one()
    # discovery settings are the same in both shipped tables; keep that
    for k in ("DISCOVERY_INITIAL_TIMEOUT_IN_SECONDS", "DISCOVERY_TIMEOUT_IN_SECONDS"):
        i[k] = a[k]
    if a["DISCOVERY_INITIAL_TIMEOUT_IN_SECONDS"] > a["DISCOVERY_TIMEOUT_IN_SECONDS"]:
        a["DISCOVERY_INITIAL_TIMEOUT_IN_SECONDS"] = i["DISCOVERY_INITIAL_TIMEOUT_IN_SECONDS"] = a["DISCOVERY_TIMEOUT_IN_SECONDS"]
    return {"active": a, "idle": i}


def draw_firmware(rng) -> Dict[str, Any]:
    """Firmware versions a spa may report (build 16 bit, major/minor 8 bit)."""
    def one():
        return [rng.choice([0, 61, 88, 89, 65535]), rng.choice([0, 1, 9, 11, 12, 14, 15, 255]), rng.choice([0, 3, 255])]
    return {"EN": one(), "CO": one()}


def table_max(tables: Dict[str, Dict[str, float]], key: str) -> float:
    from geckolib import config as cfgmod

    vals = []
    for mode, cls in (("active", cfgmod._GeckoActiveConfig), ("idle", cfgmod._GeckoIdleConfig)):
        vals.append(tables.get(mode, {}).get(key, getattr(cls, key)))
    return max(vals)


class System:
    """One client application (SimSpaMan) and one spa peer on SimNet, with recorders armed."""

    def __init__(self, world, snapshot: Optional[str] = None, model: bool = True, man_kwargs: Optional[Dict[str, str]] = None,
                 record_queues: bool = True, record_calls: bool = True, record_installs: bool = True,
                 spa_ip: Optional[str] = None, client_uuid: Optional[str] = None, exclusive: bool = False):
        """spa_ip / client_uuid / exclusive: a second client-and-spa pair in the same process (exclusive = only endpoints opened by this
        manager's own tasks are attributed to this fixture)."""
        self.world = world
        self.exclusive = exclusive
        snap = snapshot or world.cfg.get("snapshot", "default.snapshot")
        self.snap_path = os.path.join(repo_root(), "tests", "snapshots", snap)
        self.peer = SpaPeer(world.loop, world.net, self.snap_path, cls=model_spa_class() if model else None, ip=spa_ip or SPA_IP)
        world.peers.append(self.peer)
        rem = world.cfg.get("peer_reminders")
        if rem is not None and model:
            # peer data: which reminders the spa reports ("none" = every slot invalid: a spa on which no reminder is in use)
            from geckolib import GeckoReminderType

            self.peer.sim.reminders_override = [(GeckoReminderType.INVALID, -13)] * 10 if rem == "none" else [(GeckoReminderType.CLEAN_FILTER, 3)] + [(GeckoReminderType.INVALID, -13)] * 9
            world.result.probe("spa_reports_" + rem + "_reminders")
        fw = world.cfg.get("firmware")
        if fw:
            # peer-supplied data: the in.touch2 firmware versions reported in the handshake (every shipped snapshot says EN v14/v15)
            self.peer.sim.snapshot._intouch_EN = tuple(fw["EN"])
            self.peer.sim.snapshot._intouch_CO = tuple(fw["CO"])
            world.result.probe("firmware_version_drawn")
        self.calls = CallRecorder(world)
        self.queues: Dict[str, QueueRecorder] = {}
        self.protocols: Dict[str, Any] = {}
        self.transports: Dict[str, Any] = {}
        self.installs: List[InstallRecorder] = []
        self.spas: List[Any] = []                       # every GeckoAsyncSpa object seen, in creation order
        self._wrapped_structs: set = set()
        self.on_new_spa: List[Any] = []
        self.record_queues, self.record_calls, self.record_installs = record_queues, record_calls, record_installs
        cls = make_spaman_class()
        kw = {"spa_address": spa_ip or SPA_IP, "spa_identifier": SPA_ID, "spa_name": SPA_NAME}
        if man_kwargs is not None:
            kw = man_kwargs
        if client_uuid is not None:
            kw = dict(kw, client_uuid=client_uuid)
        self.man = cls(world, **kw)
        # every task this manager ever creates (its own list is tidied periodically)
        self.all_tasks: set = set()
        _orig_add = self.man.add_task

        def _add_task(coroutine, name_, key_, _orig=_orig_add):
            out = _orig(coroutine, name_, key_)
            if self.man._tasks:
                self.all_tasks.add(self.man._tasks[-1])
            return out
        self.man.add_task = _add_task
        world.loop.endpoint_hooks.append(self._on_endpoint)

    # -- hooks -------------------------------------------------------------------------------------------
    def _on_endpoint(self, transport, protocol) -> None:
        if self.exclusive:
            import asyncio

            try:
                cur = asyncio.current_task()
            except RuntimeError:
                cur = None
            if cur is None or (cur not in self.all_tasks and cur not in getattr(self.man, "_tasks", [])):
                return          # opened by the other client of this process
        label = transport.label
        self.protocols[label] = protocol
        self.transports[label] = transport
        protocol._verif_label = label
        if self.record_queues and hasattr(protocol, "queue"):
            self.queues[label] = QueueRecorder(self.world, protocol.queue, label)
        if self.record_calls and hasattr(protocol, "get"):
            self.calls.wrap_protocol(protocol)
        spa = getattr(self.man, "_spa", None)
        if spa is not None and id(spa) not in self._wrapped_structs and getattr(spa, "_protocol", None) is None:
            # endpoint being opened by this spa's _connect()
            self._wrapped_structs.add(id(spa))
            self.spas.append(spa)
            spa._verif_label = label
            if self.record_calls:
                self.calls.wrap_struct(spa.struct)
            if self.record_installs:
                self.installs.append(InstallRecorder(self.world, spa.struct, "client:" + label))
            for f in self.on_new_spa:
                f(spa, label)

    # -- helpers -------------------------------------------------------------------------------------------
    @property
    def spa(self):
        """The manager's current GeckoAsyncSpa (no public accessor exists before the facade is built)."""
        if not hasattr(self.man, "_spa"):
            raise HarnessError("GeckoAsyncSpaMan._spa no longer exists")
        return self.man._spa

    async def wait_connected(self, cap: float = 120.0, one_update: bool = True) -> None:
        from geckolib import GeckoSpaState

        t0 = self.world.now()
        while not (self.man.spa_state == GeckoSpaState.CONNECTED and self.man.facade is not None):
            if self.world.now() - t0 > cap:
                raise HarnessError(f"manager did not connect on a healthy network within {cap}s "
                                   f"(state {self.man.spa_state})")
            await asyncio.sleep(0.1)
        if one_update:
            try:
                await asyncio.wait_for(self.man.facade.wait_for_one_update(), cap)
            except asyncio.TimeoutError:
                raise HarnessError("facade did not complete one update cycle on a healthy network")

    def client_endpoint_of(self, spa) -> Optional[Any]:
        return self.transports.get(getattr(spa, "_verif_label", None))
