"""SimNet — the only network either world sees, plus the socket/transport fakes bound to it."""

from __future__ import annotations

import heapq
import socket as _real_socket
from typing import Any, Callable, Dict, List, Optional, Tuple

from .core import Choices, Clock, EventLog, RunResult

SPA_PORT = 10022
BROADCAST = "<broadcast>"
CLIENT_IP = "10.0.0.2"
SPA_IP = "10.0.0.10"


def verb_of(data: bytes) -> str:
    """Short label of a datagram: HELLO, or the 5-byte verb inside a PACKT frame, or '?'."""
    if data.startswith(b"<HELLO>"):
        return "HELLO"
    if data.startswith(b"<PACKT>"):
        i = data.find(b"<DATAS>")
        if i >= 0:
            return data[i + 7:i + 12].decode("latin1", "replace")
        return "PACKT?"
    return "?" + data[:5].decode("latin1", "replace")


def inner_of(data: bytes) -> bytes:
    i = data.find(b"<DATAS>")
    j = data.rfind(b"</DATAS>")
    if i >= 0 and j >= 0:
        return data[i + 7:j]
    return b""


class NetRecord:
    """One datagram put on the wire (kept for history oracles)."""

    __slots__ = ("seq", "t", "src", "dst", "data", "verb", "who", "fate", "deliveries", "dir", "lseq")

    def __init__(self, seq, t, src, dst, data, verb, who, direction):
        self.seq = seq
        self.t = t
        self.src = src
        self.dst = dst
        self.data = data
        self.verb = verb
        self.who = who
        self.fate = "sent"
        self.deliveries: List[Tuple[int, float]] = []   # (event seq, time) per delivery
        self.dir = direction

    def __repr__(self):
        return f"<{self.seq}@{self.t:.6f} {self.src}->{self.dst} {self.verb} {self.fate} by {self.who}>"


class SimNet:
    def __init__(self, clock: Clock, choices: Choices, log: EventLog, cfg: Dict[str, Any], result: RunResult):
        self.clock = clock
        self.log = log
        self.cfg = cfg
        self.result = result
        self.endpoints: Dict[Tuple[str, int], Any] = {}
        self._heap: List[Tuple[int, int, Tuple[str, int], bytes, Tuple[str, int], NetRecord]] = []
        self._n = 0
        self.history: List[NetRecord] = []
        self.s_drop = choices.stream("net.drop")
        self.s_dup = choices.stream("net.dup")
        self.s_delay = choices.stream("net.delay")
        self.s_err = choices.stream("net.senderr")
        self.who: Callable[[], str] = lambda: "?"
        self.on_schedule: Optional[Callable[[int], None]] = None   # World T / stepper wake hook
        self._eph = 40000
        self.healed = False          # when True, all probabilistic faults are off (network healthy)
        self.taps: List[Callable[[str, NetRecord], None]] = []     # observers ("tx"/"rx", record)
        self.rules: List[Dict[str, Any]] = [dict(r) for r in cfg.get("rules", [])]
        self.blackouts: List[Tuple[float, float, str]] = [tuple(b) for b in cfg.get("blackouts", [])]
        self.dead_letters = 0

    # -- binding -----------------------------------------------------------------------------------
    def ephemeral(self, ip: str) -> Tuple[str, int]:
        self._eph += 1
        return (ip, self._eph)

    def bind(self, addr: Tuple[str, int], ep: Any) -> None:
        self.endpoints[addr] = ep

    def unbind(self, addr: Tuple[str, int]) -> None:
        self.endpoints.pop(addr, None)

    # -- faults ------------------------------------------------------------------------------------
    def _in_blackout(self, t: float, direction: str) -> bool:
        for (t0, t1, d) in self.blackouts:
            if t0 <= t < t1 and (d == "both" or d == direction):
                return True
        return False

    def _rule_hit(self, verb: str, direction: str, data: bytes) -> bool:
        for r in self.rules:
            if r.get("n", 0) <= 0:
                continue
            if r.get("dir", direction) != direction:
                continue
            if r.get("verb") not in (None, verb):
                continue
            if "seg" in r:
                # STATV segment index match
                inner = inner_of(data)
                if not (inner.startswith(b"STATV") and len(inner) > 5 and inner[5] == r["seg"]):
                    continue
            if r.get("skip", 0) > 0:
                r["skip"] -= 1
                continue
            r["n"] -= 1
            return True
        return False

    # -- sending -----------------------------------------------------------------------------------
    def send(self, src: Tuple[str, int], dst: Tuple[str, int], data: bytes, may_fail: bool = False) -> List[str]:
        """may_fail: the sender is an asyncio transport, whose sendto() can fail with an OSError that asyncio reports through
        protocol.error_received() (fate "send_error": nothing leaves, the record stays in the history)."""
        now = self.clock.peek()
        if dst[0] == BROADCAST:
            targets = sorted(a for a in self.endpoints if a[1] == dst[1] and a != src)
        else:
            targets = [(dst[0], dst[1])]
        verb = verb_of(data)
        direction = "c2s" if dst[1] == SPA_PORT else "s2c"
        fates = []
        for target in targets:
            self._n += 1
            rec = NetRecord(self._n, now, src, target, data, verb, self.who(), direction)
            self.history.append(rec)
            self._send_one(rec, now, may_fail)
            fates.append(rec.fate)
        return fates

    def _send_one(self, rec: NetRecord, now: float, may_fail: bool = False) -> None:
        cfg = self.cfg
        res = self.result
        direction = rec.dir
        fate = "ok"
        if may_fail and not self.healed and (cfg.get("send_error_p", 0.0) or cfg.get("blocking_send_error_p", 0.0)) \
                and self.s_err.chance(cfg.get("send_error_p", 0.0) or cfg.get("blocking_send_error_p", 0.0)):
            fate = "send_error"
            res.fault("send_error")
        elif not self.healed and self._in_blackout(now, direction):
            fate = "blackout"
            res.fault("blackout_drop")
        elif not self.healed and self._rule_hit(rec.verb, direction, rec.data):
            fate = "rule"
            res.fault("scripted_drop")
        elif not self.healed:
            p = cfg.get("loss_c2s" if direction == "c2s" else "loss_s2c", cfg.get("loss", 0.0))
            if self.s_drop.chance(p):
                fate = "lost"
                res.fault("loss")
        rec.fate = fate
        rec.lseq = self.log.add("tx", rec.seq, rec.src, rec.dst, rec.verb, len(rec.data), fate, rec.who)
        for tap in self.taps:
            tap("tx", rec)
        if fate != "ok":
            return
        lat_min = cfg.get("lat_min", 0.001)
        lat_max = cfg.get("lat_max", 0.003)
        if self.healed:
            lat_max = min(lat_max, cfg.get("lat_healed_max", 0.005))
            lat_min = min(lat_min, lat_max)
        d = self.s_delay.uniform(lat_min, lat_max)
        if not self.healed and self.s_delay.chance(cfg.get("slow_p", 0.0)):
            d += self.s_delay.uniform(0.0, cfg.get("slow_max", 0.0))
            res.fault("delay")
        self._schedule(rec, now + d)
        if not self.healed and self.s_dup.chance(cfg.get("dup", 0.0)):
            d2 = d + self.s_dup.uniform(0.0, cfg.get("dup_max", 0.2))
            res.fault("dup")
            self._schedule(rec, now + d2)

    def inject(self, src: Tuple[str, int], dst: Tuple[str, int], data: bytes, delay: float = 0.0,
               who: str = "inject") -> NetRecord:
        """Deliver a harness-made datagram without faults (used for junk / late traffic)."""
        now = self.clock.peek()
        self._n += 1
        direction = "c2s" if dst[1] == SPA_PORT else "s2c"
        rec = NetRecord(self._n, now, src, dst, data, verb_of(data), who, direction)
        rec.fate = "ok"
        self.history.append(rec)
        rec.lseq = self.log.add("tx", rec.seq, rec.src, rec.dst, rec.verb, len(rec.data), "inject", who)
        for tap in self.taps:
            tap("tx", rec)
        self._schedule(rec, now + delay)
        return rec

    def _schedule(self, rec: NetRecord, t: float) -> None:
        t_ns = int(t * 1e9)
        self._n += 1
        heapq.heappush(self._heap, (t_ns, self._n, rec.dst, rec.data, rec.src, rec))
        if self.on_schedule is not None:
            self.on_schedule(t_ns)

    # -- delivery ----------------------------------------------------------------------------------
    def next_time_ns(self) -> Optional[int]:
        return self._heap[0][0] if self._heap else None

    def in_flight(self) -> int:
        return len(self._heap)

    def deliver_due(self, now_ns: int) -> int:
        """Hand every datagram whose arrival time has come to its endpoint.  Returns the count."""
        n = 0
        heap = self._heap
        while heap and heap[0][0] <= now_ns:
            t_ns, _, dst, data, src, rec = heapq.heappop(heap)
            ep = self.endpoints.get(dst)
            if ep is None:
                self.dead_letters += 1
                self.log.add("rx-dead", rec.seq, dst)
                continue
            es = self.log.add("rx", rec.seq, dst, rec.verb)
            rec.deliveries.append((es, t_ns / 1e9))
            if len(rec.deliveries) > 1:
                pass
            for tap in self.taps:
                tap("rx", rec)
            ep.deliver(data, src, rec)
            n += 1
        return n


# ---------------------------------------------------------------------------------------------------
# World A: asyncio datagram transport bound to SimNet
# ---------------------------------------------------------------------------------------------------
class SimTransport:
    """Mimics asyncio's _SelectorDatagramTransport closely enough for geckolib."""

    def __init__(self, loop, net: SimNet, protocol, local: Tuple[str, int], label: str):
        self._loop = loop
        self._net = net
        self._protocol = protocol
        self.local = local
        self.label = label
        self._closing = False
        self._conn_lost = 0
        self.close_called = 0
        self.created_at = net.clock.peek()
        self.created_by = net.who()
        self.received = 0
        self.sent = 0
        net.bind(local, self)

    # asyncio.DatagramTransport API
    def sendto(self, data, addr=None):
        if self._closing or self._conn_lost:
            self._conn_lost += 1
            return
        if addr is None:
            raise ValueError("SimTransport.sendto needs an address")
        self.sent += 1
        fates = self._net.send(self.local, (addr[0], addr[1]), bytes(data), may_fail=True)
        if "send_error" in fates:
            # as asyncio's selector transport does when the socket's sendto() raises OSError (e.g. ENETUNREACH)
            self._protocol.error_received(OSError(101, "Network is unreachable"))

    def close(self):
        self.close_called += 1
        if self._closing:
            return
        self._closing = True
        self._net.unbind(self.local)
        self._conn_lost += 1
        self._loop.call_soon(self._call_connection_lost, None)

    def abort(self):
        self.close()

    def is_closing(self):
        return self._closing

    def get_extra_info(self, name, default=None):
        if name == "sockname":
            return self.local
        return default

    def _call_connection_lost(self, exc):
        self._protocol.connection_lost(exc)

    # SimNet endpoint API
    def deliver(self, data: bytes, src: Tuple[str, int], rec: NetRecord) -> None:
        if self._closing:
            return
        self.received += 1
        self._loop._sim_add_ready(self._protocol.datagram_received, data, src)

    def __repr__(self):
        return f"<SimTransport {self.label} {self.local} closing={self._closing}>"


# ---------------------------------------------------------------------------------------------------
# Blocking socket fake (simulator engine in both worlds, whole blocking client in World T)
# ---------------------------------------------------------------------------------------------------
class FakeSocket:
    def __init__(self, net: SimNet, ip: str, label: str, blocker=None):
        self._net = net
        self.ip = ip
        self.label = label
        self.local: Optional[Tuple[str, int]] = None
        self.inbox: List[Tuple[bytes, Tuple[str, int]]] = []
        self.timeout: Optional[float] = None
        self.closed = False
        self.blocker = blocker        # object with wait_readable(sock, timeout) -> bool
        self.on_readable: Optional[Callable[[], None]] = None
        self.sent = 0
        self.received = 0

    def settimeout(self, t):
        self.timeout = t

    def setsockopt(self, *a):
        pass

    def bind(self, addr):
        self.local = (self.ip, addr[1])
        self._net.bind(self.local, self)

    def _ensure_bound(self):
        if self.local is None:
            self.local = self._net.ephemeral(self.ip)
            self._net.bind(self.local, self)

    def sendto(self, data, addr):
        if self.closed:
            raise OSError(9, "Bad file descriptor")
        self._ensure_bound()
        self.sent += 1
        # a blocking sendto() reports a transient failure (ENETUNREACH while the network comes up ...) by raising
        fates = self._net.send(self.local, (addr[0], addr[1]), bytes(data), may_fail=bool(self._net.cfg.get("blocking_send_error_p")))
        if "send_error" in fates:
            raise OSError(101, "Network is unreachable")
        return len(data)

    def recvfrom(self, n):
        if self.closed:
            raise OSError(9, "Bad file descriptor")
        self._ensure_bound()
        if not self.inbox:
            ok = False
            if self.blocker is not None:
                ok = self.blocker.wait_readable(self, self.timeout)
            if self.closed:
                raise OSError(9, "Bad file descriptor")
            if not ok and not self.inbox:
                raise _real_socket.timeout("timed out")
        data, src = self.inbox.pop(0)
        self.received += 1
        return data[:n], src          # a datagram longer than the buffer is truncated, as recvfrom() does on a UDP socket

    def close(self):
        if not self.closed:
            self.closed = True
            if self.local is not None:
                self._net.unbind(self.local)

    def deliver(self, data: bytes, src: Tuple[str, int], rec: NetRecord) -> None:
        if self.closed:
            return
        self.inbox.append((data, src))
        if self.on_readable is not None:
            self.on_readable()

    def __repr__(self):
        return f"<FakeSocket {self.label} {self.local}>"
