"""Core of the deterministic simulator: seed mixing, choice streams, event log, results.

One integer decides everything.  A run is described by a *case* (property, seed, cfg, plan) and, when
replaying, by the recorded values of every choice stream.  Nothing in this module reads a real clock or
an unseeded PRNG.
"""

from __future__ import annotations

import bisect
import hashlib
import json
import random
from typing import Any, Dict, List, Optional, Tuple

MASK64 = (1 << 64) - 1


def _splitmix(x: int) -> int:
    x = (x + 0x9E3779B97F4A7C15) & MASK64
    z = x
    z = ((z ^ (z >> 30)) * 0xBF58476D1CE4E5B9) & MASK64
    z = ((z ^ (z >> 27)) * 0x94D049BB133111EB) & MASK64
    return z ^ (z >> 31)


def mix(seed: int, *parts: Any) -> int:
    """Pure-integer hash of (seed, parts).  Never uses hash(); stable across processes/interpreters."""
    h = _splitmix(seed & MASK64)
    for p in parts:
        if isinstance(p, int):
            h = _splitmix(h ^ (p & MASK64))
        else:
            for b in str(p).encode("utf-8"):
                h = _splitmix(h ^ b)
            h = _splitmix(h ^ 0xFF)
    return h


class Stream:
    """One named choice stream.

    Every primitive has a *benign default* (no fault, no delay, first candidate).  Only non-default
    results are recorded, sparsely, as ``[draw_index, value]``.  In replay mode the recorded values are
    fed back by draw index and everything else is the benign default, so a replay file is an explicit
    fault trace that can be minimised by deleting entries.
    """

    __slots__ = ("name", "_rng", "_n", "rec", "_replay", "nondefault")

    def __init__(self, name: str, seed: int, replay: Optional[List[List[Any]]] = None):
        self.name = name
        self._rng = random.Random(mix(seed, "stream", name))
        self._n = 0
        self.rec: List[List[Any]] = []
        self._replay: Optional[Dict[int, Any]] = None
        if replay is not None:
            self._replay = {int(i): v for i, v in replay}
        self.nondefault = 0

    # -- primitives -------------------------------------------------------------------------------
    def _take(self, default, produce):
        i = self._n
        self._n = i + 1
        if self._replay is not None:
            if i in self._replay:
                v = self._replay[i]
                self.rec.append([i, v])
                self.nondefault += 1
                return v
            return default
        v = produce()
        if v != default:
            self.rec.append([i, v])
            self.nondefault += 1
        return v

    def chance(self, p: float) -> bool:
        """True with probability p; benign default False."""
        if p <= 0.0:
            # keep the draw index moving so that indices do not depend on cfg probabilities being 0
            self._n += 1
            return False
        r = self._rng.random
        return bool(self._take(False, lambda: r() < p))

    def uniform(self, a: float, b: float) -> float:
        """Uniform float in [a, b]; benign default a."""
        rng = self._rng
        return float(self._take(a, lambda: round(a + (b - a) * rng.random(), 9)))

    def randint(self, a: int, b: int) -> int:
        """Uniform integer in [a, b]; benign default a."""
        rng = self._rng
        return int(self._take(a, lambda: rng.randint(a, b)))

    def index(self, n: int) -> int:
        """Index into a sequence of length n; benign default 0."""
        if n <= 1:
            self._n += 1
            return 0
        v = self.randint(0, n - 1)
        return v if v < n else 0

    def pick(self, seq):
        return seq[self.index(len(seq))]


class Choices:
    """All named streams of one run."""

    def __init__(self, seed: int, replay: Optional[Dict[str, List[List[Any]]]] = None):
        self.seed = seed
        self._replay = replay
        self._streams: Dict[str, Stream] = {}

    def stream(self, name: str) -> Stream:
        s = self._streams.get(name)
        if s is None:
            rp = None
            if self._replay is not None:
                rp = self._replay.get(name, [])
            s = Stream(name, self.seed, rp)
            self._streams[name] = s
        return s

    def recorded(self) -> Dict[str, List[List[Any]]]:
        return {n: s.rec for n, s in sorted(self._streams.items()) if s.rec}

    def counts(self) -> Dict[str, int]:
        return {n: s.nondefault for n, s in sorted(self._streams.items())}


class Clock:
    """Virtual clock in integer nanoseconds.  Ticks 1 ns per read so that two reads never tie."""

    __slots__ = ("ns", "_ledger_t", "_ledger_c", "stall_total_ns", "wall_offset_ns")

    def __init__(self) -> None:
        self.ns = 0
        # the wall clock (time.time / datetime.now) = monotonic clock + an offset that fault injection may jump either way (NTP step,
        # DST, a user setting the clock); the monotonic clock never jumps
        self.wall_offset_ns = 0
        # stall ledger: cumulative injected delay, as parallel arrays (time_ns, cumulative_ns)
        self._ledger_t: List[int] = [0]
        self._ledger_c: List[int] = [0]
        self.stall_total_ns = 0

    def read(self) -> float:
        self.ns += 1
        return self.ns / 1e9

    def peek(self) -> float:
        return self.ns / 1e9

    def advance_to(self, t_ns: int) -> None:
        if t_ns > self.ns:
            self.ns = t_ns

    def inject(self, d_ns: int) -> None:
        """Advance the clock by a simulator-injected delay and record it in the ledger."""
        if d_ns <= 0:
            return
        self.ns += d_ns
        self.stall_total_ns += d_ns
        self._ledger_t.append(self.ns)
        self._ledger_c.append(self.stall_total_ns)

    def stall_between(self, t0: float, t1: float) -> float:
        """Injected delay (seconds) that elapsed inside [t0, t1] (over-approximated at the edges)."""
        a = int(t0 * 1e9) - 1
        b = int(t1 * 1e9) + 1
        ia = bisect.bisect_left(self._ledger_t, a) - 1
        ib = bisect.bisect_right(self._ledger_t, b) - 1
        ca = self._ledger_c[ia] if ia >= 0 else 0
        cb = self._ledger_c[ib] if ib >= 0 else 0
        # a stall that *ends* after t0 but started before is counted whole: over-approximation is the
        # safe direction for an upper-bound oracle.
        return max(0, cb - ca) / 1e9


class EventLog:
    """Append-only log of (seq, t_ns, kind, fields...).  The digest is the determinism witness."""

    def __init__(self, clock: Clock, keep: bool = True):
        self._clock = clock
        self.entries: List[Tuple] = []
        self.seq = 0
        self._h = hashlib.sha256()
        self._keep = keep

    def add(self, kind: str, *fields: Any) -> int:
        self.seq += 1
        e = (self.seq, self._clock.ns, kind) + fields
        self._h.update(repr(e).encode("utf-8", "backslashreplace"))
        if self._keep:
            self.entries.append(e)
        return self.seq

    def digest(self) -> str:
        return self._h.hexdigest()


class Violation(Exception):
    """A property violation found by an oracle.

    cls: short class used for 'same violation' during minimisation, e.g. 'C01:fail-on-faultfree'.
    sig: signature used for known-finding matching (defaults to cls).
    """

    def __init__(self, prop: str, cls: str, msg: str, sig: Optional[str] = None, detail: Any = None):
        super().__init__(f"{prop} {cls}: {msg}")
        self.prop = prop
        self.cls = cls
        self.msg = msg
        self.sig = sig or cls
        self.detail = detail

    def to_json(self) -> Dict[str, Any]:
        return {"property": self.prop, "class": self.cls, "signature": self.sig, "message": self.msg,
                "detail": self.detail}


class HarnessError(Exception):
    """The machinery itself failed (never a verdict)."""


class RunResult:
    def __init__(self) -> None:
        self.violations: List[Violation] = []
        self.stats: Dict[str, float] = {}
        self.faults: Dict[str, int] = {}
        self.probes: Dict[str, int] = {}
        self.digest: str = ""
        self.shape: str = ""          # property-specific "distinct interleaving" key
        self.nontrivial: bool = False
        self.sim_seconds: float = 0.0
        self.callbacks: int = 0
        self.sample: Any = None
        self.log: Optional[List[Tuple]] = None
        self.choices: Dict[str, List[List[Any]]] = {}
        self.faultfree: bool = False
        self.sets: Dict[str, Any] = {}      # named sets of strings, unioned across runs (coverage measures)

    def bump(self, d: Dict[str, int], k: str, n: int = 1) -> None:
        d[k] = d.get(k, 0) + n

    def probe(self, k: str, n: int = 1) -> None:
        self.probes[k] = self.probes.get(k, 0) + n

    def fault(self, k: str, n: int = 1) -> None:
        self.faults[k] = self.faults.get(k, 0) + n

    def summary(self) -> Dict[str, Any]:
        return {
            "violations": [v.to_json() for v in self.violations],
            "stats": self.stats, "faults": self.faults, "probes": self.probes,
            "digest": self.digest, "shape": self.shape, "nontrivial": self.nontrivial,
            "sim_seconds": self.sim_seconds, "callbacks": self.callbacks, "sample": self.sample,
            "faultfree": self.faultfree,
        }


def canonical_json(obj: Any) -> str:
    return json.dumps(obj, sort_keys=True, separators=(",", ":"), default=_json_default)


def _json_default(o: Any):
    if isinstance(o, (bytes, bytearray)):
        return {"__bytes__": bytes(o).hex()}
    if isinstance(o, tuple):
        return list(o)
    if isinstance(o, set):
        return sorted(o)
    return repr(o)


def unjson_bytes(o: Any) -> Any:
    if isinstance(o, dict):
        if set(o.keys()) == {"__bytes__"}:
            return bytes.fromhex(o["__bytes__"])
        return {k: unjson_bytes(v) for k, v in o.items()}
    if isinstance(o, list):
        return [unjson_bytes(v) for v in o]
    return o
