"""Seams: rebind the module-level names through which geckolib reaches nondeterminism.

No hook in /repo is needed: every source (time, threading, socket, random, datetime, print) is reached
through a module attribute that the harness rebinds for the duration of one run and restores afterwards.
A seam that disappears after a refactor is a HARNESS-ERROR, never a verdict.
"""

from __future__ import annotations

import datetime as _dt
import importlib
import logging
import socket as _real_socket
import types
from typing import Any, Dict, List, Optional, Tuple

from .core import Clock, HarnessError

_EPOCH = _dt.datetime(2024, 1, 1, 0, 0, 0)

TIME_MODULES = [
    "geckolib.driver.udp_protocol_handler",
    "geckolib.driver.udp_socket",
    "geckolib.async_spa",
    "geckolib.async_locator",
    "geckolib.spa",
    "geckolib.locator",
]
DATETIME_MODULES = [
    "geckolib.async_spa",
    "geckolib.driver.protocol.rferr",
    "geckolib.automation.reminders",
]


class TimeShim:
    """Stands in for the `time` module inside geckolib."""

    def __init__(self, clock: Clock):
        self._clock = clock

    def monotonic(self) -> float:
        return self._clock.read()

    def time(self) -> float:
        return 1_700_000_000.0 + self._clock.read() + self._clock.wall_offset_ns / 1e9

    def sleep(self, d: float) -> None:  # geckolib never calls this in library code
        raise HarnessError("real time.sleep reached inside the simulation")


def make_datetime_shim(clock: Clock):
    class SimDateTime(_dt.datetime):
        @classmethod
        def now(cls, tz=None):
            d = _EPOCH + _dt.timedelta(seconds=clock.peek() + clock.wall_offset_ns / 1e9)
            return cls(d.year, d.month, d.day, d.hour, d.minute, d.second, d.microsecond, tzinfo=tz)

        @classmethod
        def utcnow(cls):
            return cls.now()

    return SimDateTime


class RandomShim:
    def __init__(self, stream):
        self._s = stream

    def random(self) -> float:
        # benign default 0.0 -> "reliable" (random() > reliability is False)
        return self._s.uniform(0.0, 1.0)

    def seed(self, *a) -> None:
        pass


# the ten members of a timing table (the harness' own statement of what "the complete table" is)
CONFIG_MEMBER_NAMES = ["DISCOVERY_INITIAL_TIMEOUT_IN_SECONDS", "DISCOVERY_TIMEOUT_IN_SECONDS", "TASK_TIDY_FREQUENCY_IN_SECONDS", "PING_FREQUENCY_IN_SECONDS",
                       "PING_DEVICE_NOT_RESPONDING_TIMEOUT_IN_SECONDS", "FACADE_UPDATE_FREQUENCY_IN_SECONDS", "SPA_PACK_REFRESH_FREQUENCY_IN_SECONDS",
                       "PROTOCOL_TIMEOUT_IN_SECONDS", "PROTOCOL_RETRY_COUNT", "PAUSE_BETWEEN_RETRIES_IN_SECONDS"]


class Seams:
    """Install / restore all patches for one run."""

    def __init__(self) -> None:
        self._saved: List[Tuple[Any, str, Any]] = []
        self._saved_config: Optional[Dict[str, Any]] = None
        self._log_state: Optional[Tuple[int, List[Any], int]] = None

    def _set(self, mod, name: str, value: Any, must_exist: bool = True) -> None:
        if must_exist and not hasattr(mod, name):
            raise HarnessError(f"seam {mod.__name__}.{name} no longer exists")
        self._saved.append((mod, name, getattr(mod, name, _MISSING)))
        setattr(mod, name, value)

    def install_time(self, clock: Clock) -> None:
        shim = TimeShim(clock)
        for mname in TIME_MODULES:
            mod = importlib.import_module(mname)
            self._set(mod, "time", shim)
        dshim = make_datetime_shim(clock)
        for mname in DATETIME_MODULES:
            mod = importlib.import_module(mname)
            self._set(mod, "datetime", dshim)

    def install_random(self, stream) -> None:
        mod = importlib.import_module("geckolib.utils.simulator")
        self._set(mod, "random", RandomShim(stream))
        self._set(mod, "print", lambda *a, **k: None, must_exist=False)

    def install_socket(self, factory) -> None:
        """factory() -> FakeSocket for sockets the blocking stack opens itself."""
        mod = importlib.import_module("geckolib.driver.udp_socket")
        shim = types.SimpleNamespace(
            socket=lambda *a, **k: factory(),
            timeout=_real_socket.timeout,
            AF_INET=_real_socket.AF_INET,
            SOCK_DGRAM=_real_socket.SOCK_DGRAM,
            IPPROTO_UDP=_real_socket.IPPROTO_UDP,
            SOL_SOCKET=_real_socket.SOL_SOCKET,
            SO_BROADCAST=_real_socket.SO_BROADCAST,
        )
        self._set(mod, "socket", shim)

    def install_threading(self, shim) -> None:
        for mname in ("geckolib.driver.udp_socket", "geckolib.spa", "geckolib.locator",
                      "geckolib.automation.facade"):
            mod = importlib.import_module(mname)
            self._set(mod, "threading", shim)

    # -- process-global state --------------------------------------------------------------------------
    def install_consts(self, consts: Optional[Dict[str, Any]]) -> None:
        """Per-run tuning knobs that are class constants of GeckoConstants (e.g. MAX_RF_ERRORS_BEFORE_HALT)."""
        if consts:
            const = importlib.import_module("geckolib.const").GeckoConstants
            for name, value in sorted(consts.items()):
                self._set(const, name, value)

    def reset_globals(self, tables: Optional[Dict[str, Dict[str, float]]] = None) -> None:
        """Reset config globals; optionally install per-run active/idle timing tables."""
        cfgmod = importlib.import_module("geckolib.config")
        members = list(CONFIG_MEMBER_NAMES)      # (the harness' own list: never iterate the library's, it may be a one-shot iterable)
        saved = {
            "active": {m: getattr(cfgmod._GeckoActiveConfig, m) for m in members},
            "idle": {m: getattr(cfgmod._GeckoIdleConfig, m) for m in members},
            "live": {m: getattr(cfgmod.GeckoConfig, m) for m in members},
            "change": cfgmod.ConfigChange,
        }
        self._saved_config = saved
        if tables:
            for m, v in tables.get("active", {}).items():
                setattr(cfgmod._GeckoActiveConfig, m, v)
            for m, v in tables.get("idle", {}).items():
                setattr(cfgmod._GeckoIdleConfig, m, v)
        # start every run in idle mode with no pending change future
        for m in members:
            setattr(cfgmod.GeckoConfig, m, getattr(cfgmod._GeckoIdleConfig, m))
        cfgmod.ConfigChange = None

    def quiet_logging(self) -> None:
        root = logging.getLogger()
        self._log_state = (root.level, list(root.handlers), logging.root.manager.disable)
        logging.disable(logging.CRITICAL)

    def restore(self) -> None:
        for mod, name, old in reversed(self._saved):
            if old is _MISSING:
                try:
                    delattr(mod, name)
                except AttributeError:
                    pass
            else:
                setattr(mod, name, old)
        self._saved.clear()
        if self._saved_config is not None:
            cfgmod = importlib.import_module("geckolib.config")
            for m, v in self._saved_config["active"].items():
                setattr(cfgmod._GeckoActiveConfig, m, v)
            for m, v in self._saved_config["idle"].items():
                setattr(cfgmod._GeckoIdleConfig, m, v)
            for m, v in self._saved_config["live"].items():
                setattr(cfgmod.GeckoConfig, m, v)
            cfgmod.ConfigChange = None
            self._saved_config = None
        if self._log_state is not None:
            root = logging.getLogger()
            level, handlers, disable = self._log_state
            root.handlers[:] = handlers
            root.setLevel(level)
            logging.disable(disable)
            self._log_state = None


class _Missing:
    pass


_MISSING = _Missing()
