#!/bin/sh
# usage: ./thorough_all.sh [budget_s] [ids...]   -- every thorough check once (time-boxed), prints exit codes
cd "$(dirname "$0")" || exit 2
b=${1:-300}; shift
ids="${*:-C03 C05 C06 C07 C08 C09 C10 C13 C15 C16 C17 C20 C01}"
for p in $ids; do
  out=$(VERIF_BUDGET_S=$b ./check "$p" thorough 2>&1); rc=$?
  echo "thorough $p rc=$rc $(echo "$out" | grep -E 'VIOLATION|HARNESS-ERROR|\]: |exit=' | head -4 | cut -c1-260 | tr '\n' ' ')"
done
