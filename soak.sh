#!/bin/sh
# usage: ./soak.sh <first seed> <last seed> [ids...]   -- runs the quick checks under several VERIF_SEED values (soundness on the unchanged tree)
cd "$(dirname "$0")" || exit 2
a=$1; b=$2; shift 2
ids="${*:-C01 C03 C05 C06 C07 C08 C09 C10 C13 C15 C16 C17 C20}"
for s in $(seq "$a" "$b"); do
  for p in $ids; do
    out=$(VERIF_SEED=$s ./check "$p" quick 2>&1); rc=$?
    echo "seed=$s $p rc=$rc $(echo "$out" | grep -E 'VIOLATION|HARNESS-ERROR|\]: ' | head -3 | cut -c1-300 | tr '\n' ' ')"
  done
done
