#!/usr/bin/env python3
"""Regenerate MANIFEST.json from the table below (keeps it valid at all times)."""
import json, os

CLAIMED = {
 "C01": ("exploration", "3.C01", "Seeded search over fault profiles x transfer plans on the real async client + real simulator; complete fault-free (start,length) triangle in thorough; the threaded structure in World T; concurrent transfer pairs on one connection; sendto() failures. Evidence over explored seeds, not proof.",
         "SimLoop/SimNet faithful to asyncio/UDP semantics; datagrams never corrupted; spa block constant during a transfer; quiescence between transfers."),
 "C06": ("exploration", "3.C06", "Seeded search over caller plans x reply-fault profiles x timing tables on the full real client; history oracle over calls, sends, deliveries and queue pops (bounded fresh attempts, reply attribution, duration bound, mutual exclusion, FIFO service, completion, gates). Evidence over explored seeds.",
         "SimLoop FIFO/deadline-order faithful to asyncio; gate window defined by the library's own 2 x ping frequency (+1 s and injected stall); stale same-verb replies are indistinguishable at protocol level and counted by a probe."),
 "C07": ("exploration", "3.C07", "Seeded search over arrival sequences/timings of known, unknown, unsolicited, mis-addressed and mal-framed datagrams injected at the live connection's endpoint, with waiters active, loop stalls and client-handler suspension; queue put/pop history checked for exactly-once, capable consumer (independent verb table), head residence <= 4 polling intervals + injected stall, and re-queue iff addressed.",
         "Inner payloads of known verbs well-formed; mean junk rate below the queue's service rate; ambiguous framing held to exactly-once/residence only."),
 "C05": ("exploration", "3.C05", "Seeded search over STATP histories (0-30 records, hot/boundary/repeated positions, 1-byte form) interleaved with refreshes, under loss/dup/reorder/stalls; history oracle: applied partial writes == concatenation of arrived records in arrival order, one STATQ (seq 1..191) per arrival.",
         "Records stay inside the block; arrival order = delivery order at the client's endpoint; an abandoned connection is held to prefix consistency only."),
 "C15": ("exploration", "3.C15", "Seeded search over responder sets (identifiers, names incl. '|' and latin-1), reply multiplicity/latency/loss, eight filter settings, drawn timing tables and loop stalls; oracle on the listed set (must/may windows that allow the consumer's one-per-interval service time), field integrity, termination bounds, endpoint close and LOC task cleanup; 1 run in 40 drives the blocking GeckoLocator (caller, engine and retry threads) in World T (all clauses but the identifier filter, which that class does not have).",
         "Only hello replies reach the locator endpoint; two spas never share an identifier."),
 "C17": ("exploration", "3.C17", "Seeded search over sleeper/switch schedules in virtual time (1-20 concurrent config_sleep callers, 0-12 switches, same-instant cases, drawn tables and callback costs/stalls) with a monitor on the live config after every callback; 1 in 5 runs is the full client with the model spa flipping pump/blower bytes, sampling 'active iff some pump or blower is on' after every callback.",
         "A shared change future exists before the first switch; 'at once' = all time between switch and wake is injected callback cost (+2 ms); only upper bounds on sleep are checked."),
 "C08": ("exploration", "3.C08", "Seeded search over full-system histories: the real manager driven by its own pump through fault phases (loss, blackout, one-way, RF-error, reboot), user resets / set-spa-info (timed or triggered by a chosen event), runtime events injected from other tasks while the client handler is suspended; every delivery and every callback-boundary state sample is walked against a reference lifecycle table (legal transitions, ready/teardown bracketing, phase brackets, reset postcondition, sensor text). Closure of the reachable abstract-state set is measured (saturation), not proved.",
         "Observation through the public handle_event/state/facade/sensor properties (plus guarded reads of _spa); a delivery chain cut because the client's own handler was cancelled owes nothing further; known findings f/j listed in known_findings.json."),
 "C09": ("exploration", "3.C09", "Seeded search over fault scripts (healthy/lossy (+ sendto failures)/blackout/one-way/RF-error/reboot phases, per-run knobs for the RF-error halt threshold and the handshake step pause, resets and set-spa-info at drawn or event-triggered instants, drawn tables, stalls, handler suspension) followed by a heal; bounded-liveness oracle: CONNECTED with a mirroring facade within a bound derived from the run's tables, total blackouts reported within the detection bound, the sequence-pump task alive at every sample.",
         "Bounds are deliberate over-approximations from the tables; no obligation while faults flow; known findings b/c listed in known_findings.json."),
 "C10": ("fault_enumeration", "3.C10", "Crash-point enumeration inside seeded schedules: 7 scenarios x scenario seeds are run once to count loop callbacks N, then re-run with async_reset / async_set_spa_info / context exit injected after callback k (quick: seeded stratified sample of k; thorough: every k for scenarios up to 3000 callbacks, first 1500 + stride beyond), plus 5/20/50 consecutive reconnect cycles; oracle: transports closed, connection tasks done within 1 s, no library task after exit, no observer call or event from the abandoned connection during 300 s of late traffic and timers, bounded endpoints/tasks over cycles; a context exit that does not return within 300 virtual s is a verdict (watchdog).",
         "'Promptly' = 1 s + injected stall; a callback boundary is an await point of some task; observers are harness callbacks registered via the public watch()."),
 "C13": ("exploration", "3.C13", "Closed loop on a benign network: for every shipped snapshot the real client connects to the model spa and runs seeded histories of facade commands (every pump mode, blower/light/eco on/off from both states, target temperature, unit spellings, watercare by index/label) at drawn instants in both timing modes, some while another request is in flight; per command: exactly one (or zero when already in state) well-formed command reaches the spa, independently decoded (pack type, config/log versions, command-range sequence, keypad code from an independent table, field position, no collateral bits), the model's item reads the requested value and the facade reads it back after the echo; commands synchronised to the instant the library's own GETWC/STATU/APING leaves; request timeout as a per-run knob; every fifth sweep drives the blocking facade (sync twins) in World T with the same oracle.",
         "Spa application semantics are a harness model (ModelSpa); temperature read-back within one raw unit; benign network only (the statement quantifies over inputs and histories, not faults)."),
 "C20": ("exploration", "3.C20", "World T: the real GeckoUdpSocket engine thread (and GeckoSpa handshake, GeckoSimulator engine) on parked real threads under a seeded baton scheduler in virtual time; four drawn sub-scenarios: FIFO/throttled sends with 1-5 (line-pre-empted) callers and incoming traffic, first-match dispatch with overlapping prefixes / runtime (un)registration / raising handlers, handler life for drawn (T, N, answer instant), (incl. a send backlog longer than the timeout), and the real handshake under scripted loss of requests, replies and chosen segments.",
         "T never below two engine iterations plus the send-queue delay; registration changes between datagrams; only the choice of who runs is simulated, the threads are real."),
 "C16": ("exploration", "3.C16", "Seeded search in three parts: linearizability of the threaded counter against a fetch-and-increment model with 2-6 real caller threads pre-empted at line level inside udp_socket.py across both wraps; a single-caller walk over two full cycles of both kinds on both implementations under drawn kind interleavings (every reachable counter state); and a wire monitor over every datagram of the full async client (both cycles wrap on the wire, new connections restart) and of the full blocking facade; half of the async wire runs are lossy (retries, STATP acknowledgements during waits, sendto() failures).",
         "Fewer than one full cycle is drawn concurrently; on an async connection draw and send share a callback so wire order is draw order."),
 "C03": ("exploration", "3.C03", "A monitor on every status-block update of both structure classes (the client's async structure and the spa-side blocking structure), with every item watched through the public API, compares the notifications with an independent decode of old and new block: exactly once iff the decoded value (temperatures: stored word) changed, right sender/old/new, new block already visible, silent otherwise, watch-twice once, removed never; several observers per item with re-entrant unwatch (self / next / all) from inside a callback judged against a reference walk. Workload: seeded STATP/refresh histories (item-aimed, straddling, identical, A-B-A, 1-byte form) under dup/reorder/loss for every shipped snapshot. The field-geometry part of C03 is a function of its input; the claim is about every update the simulated histories produce, coverage of geometries is a measured probe table.",
         "Independent decoder works from each item's declaration; temperature 'changed' = stored word changed."),
}
PENDING = {}
NA = {
 "C02": "pure function of (item declaration, block, value): no schedule, clock, fault or peer can change its outcome; not a simulation target (DESIGN.md section 4)",
 "C04": "encode/decode round-trip and verb exclusivity are pure functions of field values; no interleaving or fault is in the statement (DESIGN.md section 4)",
 "C11": "facade construction and read-only evaluation are pure functions of (tables, block, watercare byte, reminder list) (DESIGN.md section 4)",
 "C12": "device inventory is a pure function of the output items in the block and the tables (DESIGN.md section 4)",
 "C14": "unit conversion, limits and the operation ladder are pure arithmetic on raw words and flags (DESIGN.md section 4)",
 "C18": "static property of generated data and a diff against a pinned layout; nothing executes concurrently or over time (DESIGN.md section 4)",
 "C19": "writer/parser round-trip and loadability are pure functions of bytes and text; its dynamic clause is exercised by C01/C20 with shipped snapshots but not claimed (DESIGN.md section 4)",
}
ALL = ["C%02d" % i for i in range(1, 21)]
BUILT = set(CLAIMED)
checks = []
for pid in sorted(CLAIMED):
    level, ref, text, note = CLAIMED[pid]
    checks.append({
        "property_id": pid,
        "quick_cmd": f"./check {pid} quick",
        "thorough_cmd": f"./check {pid} thorough",
        "evidence_file": f"evidence/{pid}.json",
        "replay_cmd_template": "./replay {path}",
        "engine": "dst",
        "level_claimed": {"category": level, "text": text, "design_ref": ref},
        "level_note": note,
        "technique": "deterministic simulation with fault injection (seeded schedule/fault search, virtual-time asyncio loop / baton-scheduled threads, in-process SimNet)",
    })
na = [{"property_id": p, "reason": r} for p, r in sorted(NA.items())]
for p in ALL:
    if p not in CLAIMED and p not in NA:
        na.append({"property_id": p, "reason": "check not built yet in this round (planned: deterministic simulation, see DESIGN.md section 3); not claimed until its check exists and is sound"})
m = {
 "version": 1,
 "setup_cmd": "./setup",
 "hooks": {"guard": "GECKOLIB_VERIF", "enable": "none needed: every seam is a module-level name rebound by the harness at run time; no hook commit exists in /repo",
           "baseline_off_cmd": "cd /repo && /venv/bin/python -m pytest -ra -q -p no:cacheprovider --timeout=900 --continue-on-collection-errors",
           "source_commits": [], "add_only": True},
 "engines": [{"name": "dst", "path": "sim/", "serves_properties": sorted(CLAIMED), "kind_free_text": "deterministic simulator: virtual-time asyncio loop, SimNet with fault injection, baton thread scheduler, seeded choice streams, replay + ddmin minimiser"}],
 "checks": checks,
 "not_applicable": sorted(na, key=lambda e: e["property_id"]),
 "notes": "Exit 0 = held (KNOWN-FINDING lines allowed), 1 = VIOLATION with replay file, 2 = HARNESS-ERROR (machinery failed; never a verdict). Fixes in /repo: see known_findings.json (status=fixed).",
}
json.dump(m, open(os.path.join(os.path.dirname(os.path.abspath(__file__)), "MANIFEST.json"), "w"), indent=1)
print("MANIFEST.json written:", len(checks), "checks,", len(na), "not applicable")
